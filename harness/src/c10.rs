//! C10 — codepage conversion: faithful, total, LFS's tables.
use crate::common::*;
use crate::gen_codepages::TABLE;
use crate::text::*;
use insim_core::string::codepages::{to_lossy_bytes, to_lossy_string};
use std::collections::BTreeSet;

pub fn code_enc(letter: char) -> Option<&'static encoding_rs::Encoding> {
    TABLE.iter().find(|(c, _)| *c == letter).and_then(|(_, id)| enc_by_ident(id))
}

fn real_enc(s: &str) -> Option<Vec<u8>> {
    let s = s.to_string();
    guard(move || to_lossy_bytes(&s).to_vec())
}
fn real_dec(b: &[u8]) -> Option<String> {
    let b = b.to_vec();
    guard(move || to_lossy_string(&b).to_string())
}

/// inline encoder table for the model: per distinct non-ASCII char, per marker letter of the code's own table
pub fn inline_table(s: &str) -> String {
    let mut seen = BTreeSet::new();
    let mut parts = vec![];
    for c in s.chars().filter(|c| !c.is_ascii()) {
        if !seen.insert(c) { continue; }
        let mut per = vec![];
        for l in "LGCETBJHSK".chars() {
            let bs = code_enc(l).and_then(|e| enc_char(e, c));
            per.push(format!("{}:{}", l, bs.map(|b| hex(&b)).unwrap_or("-".into())));
        }
        parts.push(format!("{}={}", c as u32, per.join("/")));
    }
    if parts.is_empty() { "-".into() } else { parts.join(";") }
}

/// attribute a failed round trip: it is one of the enumerated law exceptions only if the text *without* the
/// exception characters round-trips; otherwise it is something else and stays unlisted
fn class_of_failure(s: &str) -> &'static str {
    let rep = repertoire();
    let is_ni = |c: &char| rep.not_inverted.iter().any(|(_, x)| x == c);
    let is_t5 = |c: &char| rep.trail_5e.iter().any(|(_, x)| x == c);
    let cs: Vec<char> = s.chars().collect();
    let cleaned: String = cs.iter().filter(|c| !is_ni(c) && !is_t5(c)).collect();
    let cleaned_ok = real_enc(&cleaned).and_then(|b| real_dec(&b)).as_deref() == Some(cleaned.as_str());
    if !cleaned_ok || cleaned.len() == s.len() { return "other"; }
    if cs.iter().any(is_ni) { return "codec-not-inverting"; }
    // the recorded finding needs the trail byte 0x5E to stand directly in front of a marker *letter*: a character of that
    // kind followed by one of L G C E T B J H S K 8 in the text. Followed by anything else (another character of its own
    // codepage, a character that makes the encoder insert a marker — whose first byte is a caret, not a letter) the
    // unchanged decoder is right, and a failure is something new
    let before_letter = cs.windows(2).any(|w| is_t5(&w[0]) && "LGCETBJHSK8".contains(w[1]));
    if !before_letter { return "other"; }
    "trail-byte-5e"
}

pub fn do_enc(ctx: &mut Ctx, s: &str, model_line: bool) {
    let r = real_enc(s);
    let op = format!("cp.enc {} {}", cps(s), inline_table(s));
    if model_line {
        ctx.case(&op, &r.as_ref().map(|b| hex(b)).unwrap_or("panic".into()));
    } else {
        ctx.oracle_eval("enc");
    }
    let bytes = match r {
        None => { ctx.violation("c10/total/encode-panic", "to_lossy_bytes panicked", &op, "bytes", "panic"); return; },
        Some(b) => b,
    };
    if s.is_ascii() && bytes != s.as_bytes() {
        ctx.violation("c10/ascii", "pure-ASCII text is not passed through byte for byte", &op, &hex(s.as_bytes()), &hex(&bytes));
    }
    let no_caret = !s.contains('^');
    let all_enc = s.chars().all(encodable_somewhere);
    if no_caret && all_enc {
        match real_dec(&bytes) {
            Some(back) if back == s => {},
            other => {
                let cl = class_of_failure(s);
                let bom = s.starts_with('\u{ff}') || s.starts_with('\u{fe}') || s.starts_with("\u{ef}\u{bb}\u{bf}") || s.contains("\u{ff}\u{fe}") || s.contains("\u{ef}\u{bb}\u{bf}");
                let sig = if cl == "other" && bom { "c10/faithful/bom-sniffing".to_string() } else { format!("c10/faithful/{}", cl) };
                ctx.violation(&sig, "encodable text without carets does not survive encode-then-decode", &format!("cp.rt {}", cps(s)), &cps(s), &format!("{:?} via {}", other.map(|x| cps(&x)), hex(&bytes)));
            },
        }
    }
    // lossy but local: each unencodable character behaves exactly like a literal '?'
    if !all_enc {
        let repl: String = s.chars().map(|c| if encodable_somewhere(c) { c } else { '?' }).collect();
        if real_enc(&repl).as_deref() != Some(&bytes[..]) {
            ctx.violation("c10/lossy-local", "an unencodable character did not become '?' without altering its neighbours", &format!("cp.rt {}", cps(s)), &format!("{:?}", real_enc(&repl).map(|b| hex(&b))), &hex(&bytes));
        }
    }
}

pub fn do_dec(ctx: &mut Ctx, b: &[u8], model_line: bool) {
    let r = real_dec(b);
    let op = format!("cp.dec {}", hex(b));
    if model_line {
        ctx.case(&op, &r.as_ref().map(|s| cps(s)).unwrap_or("panic".into()));
    } else {
        ctx.oracle_eval("dec");
    }
    if r.is_none() {
        ctx.violation("c10/total/decode-panic", "to_lossy_string panicked", &op, "string", "panic");
    }
}

/// marker semantics against the specification's table: "^X" + seg (no caret in seg) decodes as spec(X)(seg)
pub fn do_marker(ctx: &mut Ctx, letter: char, seg: &[u8], prefix: &[u8]) {
    let mut b = prefix.to_vec();
    b.push(b'^');
    b.push(letter as u8);
    b.extend_from_slice(seg);
    do_dec(ctx, &b, true);
    if seg.contains(&b'^') || prefix.contains(&b'^') { return; }
    let e = match spec_enc(letter) { Some(e) => e, None => return };
    let mut want = dec_bytes(spec_enc('L').unwrap(), prefix);
    if letter == '8' { want.push_str("^8"); }
    want.push_str(&dec_bytes(e, seg));
    let got = real_dec(&b);
    if got.as_deref() != Some(want.as_str()) {
        let bom = seg.starts_with(&[0xff, 0xfe]) || seg.starts_with(&[0xfe, 0xff]) || seg.starts_with(&[0xef, 0xbb, 0xbf]) || prefix.starts_with(&[0xff, 0xfe]) || prefix.starts_with(&[0xfe, 0xff]) || prefix.starts_with(&[0xef, 0xbb, 0xbf]);
        let sig = if bom { format!("c10/marker/bom-sniffing") } else { format!("c10/marker/{}", letter) };
        ctx.violation(&sig, "bytes after the marker are not interpreted in the Windows codepage LFS assigns to the letter", &format!("cp.dec {}", hex(&b)), &cps(&want), &format!("{:?}", got.map(|x| cps(&x))));
    }
}

/// text without any marker is CP1252, byte by byte — also when the bytes happen to form well-formed UTF-8 (or UTF-16, or carry
/// a byte-order mark): nothing is sniffed
pub fn do_unmarked(ctx: &mut Ctx, b: &[u8]) {
    do_dec(ctx, b, true);
    if b.windows(2).any(|w| w[0] == b'^' && "LGCETBJHSK8".contains(w[1] as char)) { return; }
    let want = dec_bytes(spec_enc('L').unwrap(), b);
    let got = real_dec(b);
    if got.as_deref() != Some(want.as_str()) {
        ctx.violation("c10/unmarked", "bytes without a codepage marker are not read as CP1252, byte by byte", &format!("cp.dec {}", hex(b)), &cps(&want), &format!("{:?}", got.map(|x| cps(&x))));
    }
}

/// two markers in a row: "^X" seg1 "^Y" seg2 — every switch, including the return to Latin-1 by ^8 after a non-Latin codepage
pub fn do_marker2(ctx: &mut Ctx, x: char, seg1: &[u8], y: char, seg2: &[u8]) {
    let mut b = vec![b'^', x as u8];
    b.extend_from_slice(seg1);
    b.push(b'^');
    b.push(y as u8);
    b.extend_from_slice(seg2);
    do_dec(ctx, &b, true);
    if seg1.contains(&b'^') || seg2.contains(&b'^') { return; }
    let (ex, ey) = match (spec_enc(x), spec_enc(y)) { (Some(a), Some(b)) => (a, b), _ => return };
    let mut want = String::new();
    if x == '8' { want.push_str("^8"); }
    want.push_str(&dec_bytes(ex, seg1));
    if y == '8' { want.push_str("^8"); }
    want.push_str(&dec_bytes(ey, seg2));
    let got = real_dec(&b);
    if got.as_deref() != Some(want.as_str()) {
        // a multi-byte lead byte at the end of seg1 swallowing the caret is the recorded trail-byte ingredient, not a marker fault
        let sig = if dec_bytes(ex, seg1).ends_with('\u{fffd}') { "c10/marker2/dangling-lead-byte".to_string() } else { format!("c10/marker2/{}{}", x, y) };
        ctx.violation(&sig, "bytes after a second marker are not interpreted in the codepage LFS assigns to it", &format!("cp.dec {}", hex(&b)), &cps(&want), &format!("{:?}", got.map(|s| cps(&s))));
    }
}

/// a colour code (^0..^7, ^9) inside a codepage run changes nothing about the codepage: "^X" seg1 "^d" seg2
pub fn do_colour(ctx: &mut Ctx, x: char, seg1: &[u8], d: char, seg2: &[u8]) {
    let mut b = vec![b'^', x as u8];
    b.extend_from_slice(seg1);
    b.push(b'^');
    b.push(d as u8);
    b.extend_from_slice(seg2);
    do_dec(ctx, &b, true);
    if seg1.contains(&b'^') || seg2.contains(&b'^') { return; }
    let ex = match spec_enc(x) { Some(e) => e, None => return };
    let mut want = String::new();
    if x == '8' { want.push_str("^8"); }
    want.push_str(&dec_bytes(ex, seg1));
    want.push('^');
    want.push(d);
    want.push_str(&dec_bytes(ex, seg2));
    let got = real_dec(&b);
    if got.as_deref() != Some(want.as_str()) {
        let sig = if dec_bytes(ex, seg1).ends_with('\u{fffd}') { "c10/marker2/dangling-lead-byte".to_string() } else { format!("c10/colour/{}{}", x, d) };
        ctx.violation(&sig, "a colour code inside a codepage run changed how the bytes after it are read", &format!("cp.dec {}", hex(&b)), &cps(&want), &format!("{:?}", got.map(|s| cps(&s))));
    }
}

/// a decoding plan of the model (`X:hex|8|Y:hex…`, `-` = no segment) run with encoding_rs and the code's own table
pub fn resolve_plan(plan: &str) -> Option<String> {
    let mut s = String::new();
    if plan == "-" { return Some(s); }
    for seg in plan.split('|') {
        if seg == "8" { s.push_str("^8"); continue; }
        let (l, h) = seg.split_once(':')?;
        s.push_str(&dec_bytes(code_enc(l.chars().next().unwrap_or('?'))?, &unhex(h)));
    }
    Some(s)
}

pub fn resolve(outdir: &std::path::Path) {
    // turn the model's plan lines into strings by running encoding_rs on each segment, with the code's own table
    let text = std::fs::read_to_string(outdir.join("model.txt")).unwrap_or_default();
    let mut out = String::with_capacity(text.len());
    for line in text.lines() {
        if let Some(plan) = line.strip_prefix("plan ") {
            out.push_str(&match resolve_plan(plan) { Some(s) => cps(&s), None => format!("unresolved {}", plan) });
        } else {
            out.push_str(line);
        }
        out.push('\n');
    }
    std::fs::write(outdir.join("model.txt"), out).unwrap();
}

pub fn replay_line(ctx: &mut Ctx, l: &str) -> bool {
    let w: Vec<&str> = l.split_whitespace().collect();
    match w.as_slice() {
        ["cp.enc", t, ..] | ["cp.rt", t] => { do_enc(ctx, &from_cps(t), true); true },
        ["cp.dec", h] => {
            let b = unhex(h);
            do_dec(ctx, &b, true);
            if !b.windows(2).any(|w| w[0] == b'^' && "LGCETBJHSK8".contains(w[1] as char)) { do_unmarked(ctx, &b); }
            // ^X seg1 ^y seg2 with a marker in front: the two-marker / caret-pair-inside-a-run oracles
            let carets: Vec<usize> = b.iter().enumerate().filter(|(_, x)| **x == b'^').map(|(i, _)| i).collect();
            if carets.len() == 2 && carets[0] == 0 && b.len() >= 2 && carets[1] >= 2 && carets[1] + 1 < b.len() && "LGCETBJHSK8".contains(b[1] as char) {
                let (x, y) = (b[1] as char, b[carets[1] + 1] as char);
                let (s1, s2) = (b[2..carets[1]].to_vec(), b[carets[1] + 2..].to_vec());
                if "LGCETBJHSK8".contains(y) { do_marker2(ctx, x, &s1, y, &s2); } else { do_colour(ctx, x, &s1, y, &s2); }
            }
            // re-run the marker oracle when the input has the shape prefix ^X seg
            if let Some(p) = b.iter().position(|x| *x == b'^') {
                if p + 1 < b.len() && "LGCETBJHSK8".contains(b[p + 1] as char) {
                    let (prefix, rest) = b.split_at(p);
                    do_marker(ctx, rest[1] as char, &rest[2..].to_vec(), prefix);
                }
            }
            true
        },
        _ => false,
    }
}

pub fn run(ctx: &mut Ctx) {
    if let Some(lines) = ctx.replay.clone() {
        for l in lines { let _ = replay_line(ctx, &l); }
        return;
    }
    let rep = repertoire();
    let quick = ctx.quick();
    for (l, v) in &rep.by_letter {
        *ctx.distribution.entry(format!("repertoire.{}", l)).or_insert(0) = v.len() as u64;
    }
    *ctx.distribution.entry("law-exceptions.trail-byte-5e".into()).or_insert(0) = rep.trail_5e.len() as u64;
    *ctx.distribution.entry("law-exceptions.codec-not-inverting".into()).or_insert(0) = rep.not_inverted.len() as u64;
    *ctx.distribution.entry("law-exceptions.nul-in-encoding".into()).or_insert(0) = rep.with_nul.len() as u64;
    *ctx.distribution.entry("law-exceptions.lead-byte-is-marker".into()).or_insert(0) = rep.lead_marker.len() as u64;
    for (l, c) in rep.lead_marker.iter().take(3) {
        ctx.violation("c10/law/lead-byte-is-marker", "a non-ASCII character's first encoded byte is a codepage letter or '8': the law the caret theorems assume fails for this table", &format!("{} U+{:04X}", l, *c as u32), "lead byte >= 0x80", "marker byte");
    }
    // 1. every encodable character alone (all of the small codepages; stride over the CJK ones in quick)
    for (l, v) in &rep.by_letter {
        let step = if quick && v.len() > 2000 { 37 } else { 1 };
        for (i, c) in v.iter().enumerate().step_by(step) {
            let s: String = [*c].iter().collect();
            do_enc(ctx, &s, i % 5 == 0 || v.len() < 300);
            // after an ASCII letter that is a codepage marker letter, and before one
            let s2: String = ['a', *c, *l, 'z'].iter().collect();
            do_enc(ctx, &s2, i % 11 == 0);
        }
    }
    ctx.exhaustive_domains.push(format!("every character of every codepage's repertoire alone and between ASCII letters{}", if quick { " (every 37th of the CJK repertoires in quick)" } else { "" }));
    // 2. pairs across codepages, shared characters, switch orders
    let n_pairs = if quick { 6000 } else { 600_000 };
    for i in 0..n_pairs {
        let k = 2 + ctx.rng.below(5) as usize;
        let mut s = String::new();
        for _ in 0..k {
            let r = ctx.rng.below(10);
            if r < 2 { s.push(*ctx.rng.pick(&['a', 'Z', ' ', '0', 'L', 'K', '8', '?', '\\'])); }
            else {
                let (_, v) = ctx.rng.pick(&rep.by_letter);
                s.push(*ctx.rng.pick(v));
            }
        }
        do_enc(ctx, &s, i % 3 == 0);
    }
    // 3. unrepresentable characters among neighbours; BOM-looking prefixes; carets
    let specials = ["\u{ff}\u{fe}ab", "\u{fe}\u{ff}ab", "\u{ef}\u{bb}\u{bf}ab", "a\u{ff}\u{fe}b", "\u{1f600}", "a\u{1f600}b", "é\u{1f600}ě\u{10ffff}ж", "\u{fffd}x", "ě^8š", "^L", "é^Hé", "タL", "ﾏ¥", "‾", "−", "", "plain ascii ^1 text", "\u{0}", "a\u{0}b", "é\u{0}"];
    for s in specials { do_enc(ctx, s, true); }
    for _ in 0..(if quick { 1500 } else { 100_000 }) {
        let k = ctx.rng.below(8) as usize;
        let mut s = String::new();
        for _ in 0..k {
            let r = ctx.rng.below(10);
            if r < 3 { s.push(char::from_u32(ctx.rng.below(0x11_0000) as u32).unwrap_or('x')); }
            else if r < 5 { s.push(*ctx.rng.pick(&['^', 'L', '8', 'a'])); }
            else { let (_, v) = ctx.rng.pick(&rep.by_letter); s.push(*ctx.rng.pick(v)); }
        }
        do_enc(ctx, &s, true);
    }
    // 4. decode side: every byte value after every marker, double-byte lead/trail pairs, BOM patterns, random bytes
    for l in "LGCETBJHSK8".chars() {
        for b in 0..=255u8 {
            if b == b'^' { continue; }
            do_marker(ctx, l, &[b], b"");
            do_marker(ctx, l, &[b, b'A'], b"x");
        }
        let pairs = if quick { 300 } else { 65536 };
        for i in 0..pairs {
            let (a, b) = if quick { (0x81 + ctx.rng.below(0x7e) as u8, ctx.rng.byte()) } else { ((i >> 8) as u8, (i & 0xff) as u8) };
            if a == b'^' || b == b'^' { continue; }
            do_marker(ctx, l, &[a, b, b'z'], b"");
        }
        // a marker with nothing after it (the last two bytes of the text), after nothing, ASCII, a high byte, another marker
        do_marker(ctx, l, &[], b"");
        do_marker(ctx, l, &[], b"abc");
        do_marker(ctx, l, &[], &[0xE9]);
        do_marker(ctx, l, &[], &[0x61, 0xE9, 0x20]);
        do_marker(ctx, l, &[0xff, 0xfe, b'a', b'b'], b"");
        do_marker(ctx, l, &[0xef, 0xbb, 0xbf, b'a'], b"");
        do_marker(ctx, l, b"abc", &[0xff, 0xfe, b'q']);
    }
    // unmarked bytes that look like UTF-8: every two-byte lead/continuation pair, samples of the three- and four-byte forms, in
    // the middle of ASCII text and alone; Latin-1 texts whose CP1252 bytes form such pairs ("Ã©", "Â£", "SÃ£o")
    for a in 0xC2u8..=0xDF { for b in 0x80u8..=0xBF { if quick && (a as usize * 64 + b as usize) % 5 != 0 { continue; } do_unmarked(ctx, &[a, b]); do_unmarked(ctx, &[b'S', a, b, b'o']); } }
    for seq in [&[0xE2u8, 0x82, 0xAC][..], &[0xE6, 0x97, 0xA5], &[0xF0, 0x9F, 0x98, 0x80], &[0xEF, 0xBB, 0xBF, b'a'], &[0xC3, 0xA9, b' ', 0xC3, 0xA9], &[b'a', 0xC3], &[0xC3], &[0xE9]] { do_unmarked(ctx, seq); }
    for t in ["\u{c3}\u{a9}", "\u{c2}\u{a3}", "S\u{c3}\u{a3}o", "\u{e2}\u{201a}\u{ac}"] { do_enc(ctx, t, true); }
    ctx.exhaustive_domains.push(format!("unmarked input: every UTF-8 two-byte lookalike pair (C2..DF)(80..BF){} alone and inside ASCII, three- and four-byte forms, a BOM", if quick { " (every 5th in quick)" } else { "" }));
    // every ordered pair of markers, with a high byte after each
    for x in "LGCETBJHSK8".chars() {
        for y in "LGCETBJHSK8".chars() {
            for (s1, s2) in [(&[0xE0u8, 0x61][..], &[0xE9u8, 0x62][..]), (&[0x61][..], &[0xF8, 0xFE, 0x20][..]), (&[][..], &[0xC4][..]), (&[0x41, 0x42][..], &[0x63, 0x61, 0x66, 0xE9][..]), (&[0xE0u8, 0x61][..], &[][..]), (&[][..], &[][..])] {
                do_marker2(ctx, x, s1, y, s2);
            }
        }
    }
    // every marker x every colour digit (^8 is a marker, not a colour) with high bytes on both sides
    for x in "LGCETBJHSK8".chars() {
        for d in "01234567 9".chars() {
            if d == ' ' { continue; }
            for (s1, s2) in [(&[0xF8u8, 0xFE][..], &[0xF8u8, 0xFE][..]), (&[0x61][..], &[0xE9, 0x62][..]), (&[][..], &[0xC4, 0xE0][..]), (&[0xE0, 0x61][..], &[][..])] {
                do_colour(ctx, x, s1, d, s2);
            }
        }
    }
    // … and every other printable byte after a caret that is not a marker: LFS's escapes (^c ^s ^t ^l ^h ^d ^q ^a ^v ^r ^^),
    // the lower-case twins of the codepage letters, punctuation — none of them ends a codepage run
    for x in "LGCETBJHSK8".chars() {
        for d in (0x20u8..0x7f).map(|b| b as char) {
            if "LGCETBJHSK8".contains(d) || d.is_ascii_digit() { continue; }
            // (the bytes before the caret end on a character boundary in every table: a lead byte there would take the caret as its trail byte)
            for (s1, s2) in [(&[0xEFu8, 0xF0, 0xE8, 0x61][..], &[0x20u8, 0xEC, 0xE8, 0xF0][..]), (&[][..], &[0xC4, 0xE0][..])] {
                do_colour(ctx, x, s1, d, s2);
            }
        }
    }
    ctx.exhaustive_domains.push("every marker x every printable non-marker byte after a caret inside the run, high bytes on both sides".into());
    ctx.exhaustive_domains.push("every ordered pair of the eleven markers with high bytes after each (codepage switches incl. the return to Latin-1 by ^8)".into());
    ctx.exhaustive_domains.push(format!("every byte value after every marker (^L ^G ^C ^E ^T ^B ^J ^H ^S ^K ^8), alone and followed by ASCII{}", if quick { "" } else { "; all 65536 byte pairs after every marker" }));
    for _ in 0..(if quick { 3000 } else { 300_000 }) {
        let k = ctx.rng.below(14) as usize;
        let b: Vec<u8> = (0..k).map(|_| { let r = ctx.rng.below(10); if r < 2 { b'^' } else if r < 4 { *ctx.rng.pick(b"LGCETBJHSK8x^") } else { ctx.rng.byte() } }).collect();
        do_dec(ctx, &b, true);
    }
}
