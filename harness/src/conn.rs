//! Connection-level streams: C05 (reassembly), C06 (writes), C07 (keep-alives), C09 (version gate).
use std::collections::BTreeMap;

use bytes::BytesMut;
use insim::net::{Codec, Mode};
use insim::Packet;

use crate::common::*;
use crate::transport::*;

#[derive(Clone, Copy, PartialEq, Eq, Debug)]
pub enum Flavour {
    Blocking,
    Tokio,
}
impl Flavour {
    pub fn tok(&self) -> &'static str {
        match self { Flavour::Blocking => "blocking", Flavour::Tokio => "tokio" }
    }
}

pub fn mode_of(compressed: bool) -> Mode {
    if compressed { Mode::Compressed } else { Mode::Uncompressed }
}
pub fn mode_tok(compressed: bool) -> &'static str {
    if compressed { "c" } else { "u" }
}

/// what the connection needs to know about a decoded packet, from the real decoder
pub fn cls_token(p: &Packet) -> String {
    let v = serde_json::to_value(p).unwrap();
    let ty = v["type"].as_str().unwrap_or("?").to_string();
    match p {
        Packet::Tiny(t) => format!("T.{}.{}", t.reqi.0, serde_json::to_value(&t.subt).ok().and_then(|s| s.as_str().map(|x| x.to_string())).map(|name| tiny_code(&name)).unwrap_or(999)),
        Packet::Ver(ver) => format!("V.{}", ver.insimver),
        // every other kind: its name and a digest of its contents (a packet delivered with altered fields is not "the same packet")
        _ => {
            let mut h: u32 = 0x811c9dc5;
            for b in v.to_string().bytes() { h ^= b as u32; h = h.wrapping_mul(0x0100_0193); }
            format!("O.{}.{:08x}", ty, h)
        },
    }
}

/// frames of the kinds whose text runs to the end of the frame (MSO, III, MTC, ACR, BTN), with a text that fills its
/// 4-byte-aligned space exactly — no NUL after it inside the frame
pub fn exact_text_frames(compressed: bool) -> Vec<Vec<u8>> {
    let mut out = vec![];
    for (ty, head) in [(11u8, 8usize), (12, 8), (14, 8), (55, 8), (45, 12)] {
        for text in [&b"abcd"[..], &b"exactly8"[..]] {
            let mut f = vec![0u8; head];
            f[1] = ty; f[2] = 1;
            if ty == 45 { f[4] = 1; f[8] = 10; f[9] = 10; f[10] = 50; f[11] = 20; }
            f.extend_from_slice(text);
            f[0] = size_byte(compressed, f.len());
            let c = classify(compressed, &f);
            if c != "E" && c != "F" && c != "P" { out.push(f); }
        }
    }
    out
}

/// TinyType variant name -> wire value, by asking the real decoder once for every byte
pub fn tiny_code(name: &str) -> u32 {
    use std::sync::OnceLock;
    static MAP: OnceLock<BTreeMap<String, u32>> = OnceLock::new();
    let m = MAP.get_or_init(|| {
        let mut m = BTreeMap::new();
        for b in 0..=255u32 {
            let mut buf = BytesMut::from(&[1u8, 3, 0, b as u8][..]);
            #[allow(unused_mut)] let mut c = Codec::new(Mode::Compressed);
            if let Some(Ok(Some(Packet::Tiny(t)))) = guard(std::panic::AssertUnwindSafe(move || c_decode(&c, &mut buf))) {
                if let Some(s) = serde_json::to_value(&t.subt).unwrap().as_str() {
                    let _ = m.entry(s.to_string()).or_insert(b);
                }
            }
        }
        m
    });
    *m.get(name).unwrap_or(&999)
}

fn c_decode(c: &Codec, buf: &mut BytesMut) -> Result<Option<Packet>, insim::Error> {
    c.decode(buf)
}

/// classify one complete frame with the real decoder: class token, `E` (decode error), `P` (panic), `F` (framing / not one frame)
pub fn classify(compressed: bool, frame: &[u8]) -> String {
    let f = frame.to_vec();
    let r = guard(move || {
        #[allow(unused_mut)] let mut c = Codec::new(mode_of(compressed));
        let mut buf = BytesMut::from(&f[..]);
        let r = c.decode(&mut buf);
        (r, buf.len())
    });
    match r {
        None => "P".into(),
        Some((Ok(Some(p)), 0)) => cls_token(&p),
        Some((Ok(Some(_)), _)) => "F".into(),
        Some((Ok(None), _)) => "F".into(),
        // an undecodable body is class E whatever the decoder did to the buffer: how much it removes is C04's / C05's
        // subject and must not decide which frames the oracle looks at
        Some((Err(insim::Error::BinRw(_)), _)) => "E".into(),
        Some((Err(_), _)) => "F".into(),
    }
}

pub fn err_token(e: &insim::Error, injected: bool) -> String {
    match e {
        insim::Error::Disconnected => "err disconnected".into(),
        insim::Error::IncompatibleVersion(n) => format!("err version({})", n),
        insim::Error::Timeout(_) => "err timeout".into(),
        insim::Error::BinRw(_) => "err decode".into(),
        insim::Error::IO { kind, .. } => {
            if injected { "err io".into() } else if *kind == std::io::ErrorKind::TimedOut { "err timeout".into() } else { "err framing".into() }
        },
        other => format!("err other({})", other),
    }
}

pub struct RunOut {
    pub trace: Vec<String>,
    pub log: Vec<Ev>,
    pub wlog: Vec<WEv>,
    pub out: Vec<u8>,
    pub write_calls: Vec<usize>,
    pub offered_min: usize,
}

fn finish(s: &std::sync::Arc<std::sync::Mutex<Script>>) -> RunOut {
    let s = s.lock().unwrap();
    RunOut {
        trace: s.trace.clone(),
        log: s.log.clone(),
        wlog: s.wlog.clone(),
        out: s.out.clone(),
        write_calls: s.write_calls.clone(),
        offered_min: s.offered.iter().copied().min().unwrap_or(0),
    }
}

thread_local! {
    static RT: tokio::runtime::Runtime = tokio::runtime::Builder::new_current_thread().enable_time().start_paused(true).build().unwrap();
}

thread_local! {
    /// when set, the connection performs its handshake (an IS_ISI with this request id) before the first read; the bytes
    /// it writes for that are not part of the read trace
    pub static HANDSHAKE: std::cell::Cell<Option<u8>> = const { std::cell::Cell::new(None) };
}
thread_local! {
    /// when set, the connection first *writes* the packet this frame decodes to (any kind); its bytes are not part of the read trace
    pub static PREWRITE: std::cell::RefCell<Option<Vec<u8>>> = const { std::cell::RefCell::new(None) };
}
thread_local! {
    /// when set to (n, reqi): after the n-th read result the connection performs a handshake again (re-sending the IS_ISI in the
    /// middle of a session is legal); what it writes for that is kept out of the trace
    pub static MID_HANDSHAKE: std::cell::Cell<Option<(usize, u8)>> = const { std::cell::Cell::new(None) };
}
thread_local! {
    /// when set, the version check is first switched to the opposite of the case's setting and then to the setting itself
    /// (the last call decides); the op line then says `v10` (on, then off) or `v01` (off, then on)
    pub static VERIFY_TOGGLE: std::cell::Cell<bool> = const { std::cell::Cell::new(false) };
}
pub fn v_tok(verify: bool) -> &'static str {
    match (VERIFY_TOGGLE.with(|t| t.get()), verify) { (false, true) => "v1", (false, false) => "v0", (true, true) => "v01", (true, false) => "v10" }
}
/// parse `v0 v1 v10 v01`: the effective setting; sets the toggle for the run that follows
pub fn parse_v(v: &str) -> bool { VERIFY_TOGGLE.with(|t| t.set(v.len() == 3)); v == "v1" || v == "v01" }
thread_local! {
    /// the InSim version the handshake's IS_ISI asks for (default: the crate's own)
    pub static HS_VERSION: std::cell::Cell<Option<u8>> = const { std::cell::Cell::new(None) };
}
fn hs_isi(reqi: u8) -> insim::insim::Isi {
    let mut i = insim::insim::Isi { reqi: insim::identifiers::RequestId(reqi), ..Default::default() };
    if let Some(v) = HS_VERSION.with(|h| h.get()) { i.version = v; }
    i
}
fn hs_suffix() -> String {
    let slow = crate::transport::SLOW.with(|x| x.get());
    if slow > 0 { return format!(" slow={}", slow); }
    if let Some(f) = PREWRITE.with(|p| p.borrow().clone()) { return format!(" pw={}", hex(&f)); }
    if let Some((n, r)) = MID_HANDSHAKE.with(|m| m.get()) { return format!(" mh={}:{}", n, r); }
    HANDSHAKE.with(|h| h.get()).map(|r| match HS_VERSION.with(|v| v.get()) { Some(v) => format!(" hs={}:{}", r, v), None => format!(" hs={}", r) }).unwrap_or_default()
}
/// the optional seventh token of a read line: `ws=<write script>` or `hs=<request id>`
fn parse_seventh(t: Option<&&str>) -> (Vec<WEv>, Option<u8>) {
    match t {
        Some(x) if x.starts_with("hs=") => { let mut it = x[3..].split(':'); let r = it.next().and_then(|v| v.parse().ok()); HS_VERSION.with(|h| h.set(it.next().and_then(|v| v.parse().ok()))); (vec![], r) },
        Some(x) if x.starts_with("mh=") => { let mut it = x[3..].split(':'); let n = it.next().and_then(|v| v.parse().ok()).unwrap_or(1); let r = it.next().and_then(|v| v.parse().ok()).unwrap_or(0); MID_HANDSHAKE.with(|m| m.set(Some((n, r)))); (vec![], None) },
        Some(x) if x.starts_with("slow=") => { crate::transport::SLOW.with(|c| c.set(x[5..].parse().unwrap_or(0))); (vec![], None) },
        Some(x) if x.starts_with("pw=") => { PREWRITE.with(|p| *p.borrow_mut() = Some(unhex(&x[3..]))); (vec![], None) },
        Some(x) => (parse_wevents(x.trim_start_matches("ws=")), None),
        None => (vec![], None),
    }
}

/// Drive a real connection over a scripted transport: call `read` until the connection is over.
pub fn run_reads(fl: Flavour, compressed: bool, verify: bool, events: Vec<Ev>, wscript: Vec<WEv>) -> RunOut {
    let max_reads = events.len() * 3 + 8 + events.iter().map(|e| if let Ev::Data(b) = e { b.len() / 4 + 1 } else { 0 }).sum::<usize>();
    let script = Script::new(events, wscript);
    let tr = Transport(script.clone());
    match fl {
        Flavour::Blocking => {
            let tr2 = tr.clone();
            let sc = script.clone();
            let r = guard(std::panic::AssertUnwindSafe(move || {
                let mut f = insim::net::blocking_impl::Framed::new(Box::new(tr2), Codec::new(mode_of(compressed)));
                if VERIFY_TOGGLE.with(|t| t.get()) { f.verify_version(!verify); }
                f.verify_version(verify);
                if let Some(r) = HANDSHAKE.with(|h| h.get()) {
                    let _ = f.handshake(hs_isi(r));
                    let mut s = sc.lock().unwrap(); s.trace.clear(); s.out.clear(); s.wlog.clear(); s.write_calls.clear();
                }
                if let Some(p) = PREWRITE.with(|p| p.borrow().clone()).and_then(|fr| packet_of(compressed, &fr)) {
                    let _ = f.write(p);
                    let mut s = sc.lock().unwrap(); s.trace.clear(); s.out.clear(); s.wlog.clear(); s.write_calls.clear();
                }
                let mut nres = 0usize;
                for _ in 0..max_reads {
                    let before = sc.lock().unwrap().injected;
                    let r = f.read();
                    let injected = sc.lock().unwrap().injected > before;
                    let tok = match &r {
                        Ok(p) => format!("pkt {}", cls_token(p)),
                        Err(e) => err_token(e, injected),
                    };
                    sc.lock().unwrap().trace.push(tok.clone());
                    if tok == "err disconnected" || tok == "err framing" {
                        break;
                    }
                    nres += 1;
                    if let Some((n, r)) = MID_HANDSHAKE.with(|m| m.get()) {
                        if nres == n {
                            let (tl, ol) = { let s = sc.lock().unwrap(); (s.trace.len(), s.out.len()) };
                            let _ = f.handshake(hs_isi(r));
                            let mut s = sc.lock().unwrap(); s.trace.truncate(tl); s.out.truncate(ol);
                        }
                    }
                }
            }));
            if r.is_none() {
                script.lock().unwrap().trace.push("abort".into());
            }
        },
        Flavour::Tokio => {
            let tr2 = tr.clone();
            let sc = script.clone();
            let r = guard(std::panic::AssertUnwindSafe(move || {
                RT.with(|rt| {
                    rt.block_on(async move {
                        let mut f = insim::net::tokio_impl::Framed::new(Box::new(tr2.clone()), Codec::new(mode_of(compressed)));
                        if VERIFY_TOGGLE.with(|t| t.get()) { f.verify_version(!verify); }
                f.verify_version(verify);
                        if let Some(r) = HANDSHAKE.with(|h| h.get()) {
                            let _ = f.handshake(hs_isi(r), std::time::Duration::from_secs(5)).await;
                            let mut s = sc.lock().unwrap(); s.trace.clear(); s.out.clear(); s.wlog.clear(); s.write_calls.clear();
                        }
                        if let Some(p) = PREWRITE.with(|p| p.borrow().clone()).and_then(|fr| packet_of(compressed, &fr)) {
                            let _ = f.write(p).await;
                            let mut s = sc.lock().unwrap(); s.trace.clear(); s.out.clear(); s.wlog.clear(); s.write_calls.clear(); s.flushed_len = 0;
                        }
                        let mut nres = 0usize;
                        for _ in 0..max_reads {
                            let before = sc.lock().unwrap().injected;
                            let r = f.read().await;
                            let injected = sc.lock().unwrap().injected > before;
                            let tok = match &r {
                                Ok(p) => format!("pkt {}", cls_token(p)),
                                Err(e) => err_token(e, injected),
                            };
                            if tok == "err timeout" {
                                tr2.clear_stall();
                            }
                            // whatever the connection wrote while producing this result (a keep-alive reply) has been flushed
                            { let mut s = sc.lock().unwrap(); if r.is_ok() && s.flushed_len < s.out.len() { let n = s.out.len() - s.flushed_len; s.trace.push(format!("unflushed={}", n)); } }
                            sc.lock().unwrap().trace.push(tok.clone());
                            if tok == "err disconnected" || tok == "err framing" {
                                break;
                            }
                            nres += 1;
                            if let Some((n, r)) = MID_HANDSHAKE.with(|m| m.get()) {
                                if nres == n {
                                    let (tl, ol) = { let s = sc.lock().unwrap(); (s.trace.len(), s.out.len()) };
                                    let _ = f.handshake(hs_isi(r), std::time::Duration::from_secs(5)).await;
                                    let mut s = sc.lock().unwrap(); s.trace.truncate(tl); s.out.truncate(ol); s.flushed_len = s.out.len();
                                }
                            }
                        }
                    })
                })
            }));
            if r.is_none() {
                script.lock().unwrap().trace.push("abort".into());
            }
        },
    }
    finish(&script)
}

/// Drive `write` for a list of packets (given as frames to decode first) over a scripted write half.
pub fn run_writes(fl: Flavour, compressed: bool, packets: Vec<Packet>, wscript: Vec<WEv>) -> (RunOut, Vec<String>) {
    let script = Script::new(vec![], wscript);
    let tr = Transport(script.clone());
    let mut results = vec![];
    match fl {
        Flavour::Blocking => {
            let r = guard(std::panic::AssertUnwindSafe(|| {
                let mut f = insim::net::blocking_impl::Framed::new(Box::new(tr.clone()), Codec::new(mode_of(compressed)));
                let mut res = vec![];
                for p in packets {
                    let before = script.lock().unwrap().injected;
                    let r = f.write(p);
                    let injected = script.lock().unwrap().injected > before;
                    let ok = r.is_ok();
                    res.push(match r { Ok(()) => "ok".to_string(), Err(e) => err_token(&e, injected || matches!(e, insim::Error::IO { .. })) });
                    if !ok { break; }
                }
                res
            }));
            results = r.unwrap_or_else(|| vec!["abort".into()]);
        },
        Flavour::Tokio => {
            let r = guard(std::panic::AssertUnwindSafe(|| {
                RT.with(|rt| {
                    rt.block_on(async {
                        let mut f = insim::net::tokio_impl::Framed::new(Box::new(tr.clone()), Codec::new(mode_of(compressed)));
                        let mut res = vec![];
                        for p in packets {
                            let before = script.lock().unwrap().injected;
                            let r = f.write(p).await;
                            let injected = script.lock().unwrap().injected > before;
                            let ok = r.is_ok();
                            // a write that returned Ok has flushed what it handed to the transport
                            { let s = script.lock().unwrap(); if ok && s.flushed_len < s.out.len() { res.push(format!("unflushed={}", s.out.len() - s.flushed_len)); } }
                            res.push(match r { Ok(()) => "ok".to_string(), Err(e) => err_token(&e, injected || matches!(e, insim::Error::IO { .. })) });
                            if !ok { break; }
                        }
                        res
                    })
                })
            }));
            results = r.unwrap_or_else(|| vec!["abort".into()]);
        },
    }
    (finish(&script), results)
}

// ---------------------------------------------------------------------------------------------
// frame pool

pub struct Pool {
    pub compressed: bool,
    /// one valid all-zero-body frame per packet kind the decoder accepts that way
    pub by_type: Vec<(u8, Vec<u8>)>,
    pub tiny: Vec<Vec<u8>>,
    pub ver: Vec<Vec<u8>>,
    pub bad: Vec<Vec<u8>>,
}

pub fn size_byte(compressed: bool, len: usize) -> u8 {
    if compressed { (len / 4) as u8 } else { len as u8 }
}

pub fn build_pool(compressed: bool) -> Pool {
    let max = if compressed { 1020 } else { 252 };
    let mut by_type = vec![];
    for t in 1..=255u8 {
        let mut len = 4;
        while len <= max {
            let mut f = vec![0u8; len];
            f[0] = size_byte(compressed, len);
            f[1] = t;
            let c = classify(compressed, &f);
            if c != "E" && c != "F" && c != "P" {
                by_type.push((t, f));
                break;
            }
            len += 4;
            if len > 260 && len < 1000 { len = 1000; } // big kinds only make sense near the top
        }
    }
    let mut tiny = vec![];
    for subt in 0..=40u8 {
        for reqi in [0u8, 1, 255] {
            tiny.push(vec![size_byte(compressed, 4), 3, reqi, subt]);
        }
    }
    let mut ver = vec![];
    for n in 0..=255u8 {
        let mut f = vec![0u8; 20];
        f[0] = size_byte(compressed, 20);
        f[1] = 2;
        f[2] = n.wrapping_mul(7);
        f[4..8].copy_from_slice(b"0.7E");
        f[12..14].copy_from_slice(b"S3");
        f[18] = n;
        ver.push(f);
    }
    // frames that are well-framed but undecodable: unknown type numbers, bad enumerants, wrong body size
    let mut bad = vec![];
    for t in [0u8, 70, 100, 200, 249] {
        bad.push(vec![size_byte(compressed, 8), t, 0, 0, 1, 2, 3, 4]);
    }
    bad.push(vec![size_byte(compressed, 4), 3, 0, 200]); // TINY with an undefined sub-type
    bad.push(vec![size_byte(compressed, 8), 3, 0, 0, 9, 9, 9, 9]); // TINY_NONE keep-alive with a trailing garbage word (still a TINY to the parser?)
    bad.push(vec![size_byte(compressed, 8), 2, 0, 0, 0, 0, 0, 0]); // VER cut short
    Pool { compressed, by_type, tiny, ver, bad }
}

/// frames well beyond 255 bytes (compressed mode announces up to 1020): counted kinds with many elements
pub fn big_frames(compressed: bool) -> Vec<Vec<u8>> {
    let mut big_frames: Vec<Vec<u8>> = vec![];
    for (ty, head, elt, counts) in [(54u8, 8usize, 8usize, vec![30usize, 31, 40, 60]), (38, 4, 28, vec![8, 9, 16]), (37, 4, 6, vec![40]), (65, 8, 4, vec![61, 62, 120])] {
        for n in counts {
            let mut len = head + elt * n;
            while len % 4 != 0 { len += 1; }
            if len > (if compressed { 1020 } else { 252 }) { continue; }
            let mut f = vec![0u8; len];
            f[0] = size_byte(compressed, len); f[1] = ty; f[3] = n as u8;
            if ty == 65 { for i in 0..n { f[head + 4 * i..head + 4 * i + 4].copy_from_slice(&(0x8000_0000u32 + i as u32).to_le_bytes()); } }
            let c = classify(compressed, &f);
            if c != "E" && c != "F" && c != "P" { big_frames.push(f); }
        }
    }
    big_frames
}

pub fn class_table(compressed: bool, frames: &[Vec<u8>]) -> (String, BTreeMap<Vec<u8>, String>) {
    let mut m = BTreeMap::new();
    for f in frames {
        if !m.contains_key(f) {
            let _ = m.insert(f.clone(), classify(compressed, f));
        }
    }
    let s = if m.is_empty() { "-".to_string() } else { m.iter().map(|(f, c)| format!("{}={}", hex(f), c)).collect::<Vec<_>>().join(";") };
    (s, m)
}

/// all compositions of `n` into positive parts, as cut masks
pub fn partition_by_mask(stream: &[u8], mask: u64) -> Vec<Ev> {
    let mut evs = vec![];
    let mut cur = vec![];
    for (i, b) in stream.iter().enumerate() {
        cur.push(*b);
        if i + 1 == stream.len() || (mask >> i) & 1 == 1 {
            evs.push(Ev::Data(std::mem::take(&mut cur)));
        }
    }
    evs
}

pub fn random_partition(rng: &mut Rng, stream: &[u8], style: u64) -> Vec<Ev> {
    let mut evs = vec![];
    let mut i = 0;
    while i < stream.len() {
        let left = stream.len() - i;
        let k = match style % 5 {
            0 => 1,
            1 => left,
            2 => 1 + rng.below(7) as usize,
            3 => 1 + rng.below(2000) as usize,
            _ => if rng.chance(1, 3) { 1 + rng.below(3) as usize } else { 1 + rng.below(300) as usize },
        }
        .min(left);
        evs.push(Ev::Data(stream[i..i + k].to_vec()));
        i += k;
    }
    evs
}

pub fn sprinkle_faults(rng: &mut Rng, evs: Vec<Ev>, fl: Flavour, density: u64) -> Vec<Ev> {
    let mut out = vec![];
    for e in evs {
        if density > 0 && rng.chance(1, density) {
            let k = rng.below(if fl == Flavour::Tokio { 3 } else { 1 });
            out.push(match k { 0 => Ev::IoErr, 1 => Ev::Pending, _ => Ev::Timeout });
        }
        out.push(e);
    }
    out
}

/// expected fault-free trace for a frame list, from per-frame classification by the real decoder and the
/// property's own statement of keep-alive (bytes: type 3, reqi 0, sub-type 0) and version gate (type 2, byte 18)
pub fn expected_trace(compressed: bool, verify: bool, frames: &[Vec<u8>], table: &BTreeMap<Vec<u8>, String>) -> Vec<String> {
    let mut out: Vec<String> = vec![];
    let pong = hex(&[size_byte(compressed, 4), 3, 0, 0]);
    for f in frames {
        let c = &table[f];
        if c == "P" {
            out.push("abort".into());
            return out;
        }
        if c == "E" {
            out.push("err decode".into());
            continue;
        }
        if f[1] == 2 && verify && f.len() >= 20 && f[18] != 9 {
            out.push(format!("err version({})", f[18]));
            continue;
        }
        if f[1] == 3 && f.len() >= 4 && f[2] == 0 && f[3] == 0 {
            if let Some(last) = out.last_mut() {
                if last.starts_with("w=") { last.push_str(&pong); } else { out.push(format!("w={}", pong)); }
            } else {
                out.push(format!("w={}", pong));
            }
        }
        out.push(format!("pkt {}", c));
    }
    out.push("err disconnected".into());
    out
}

pub fn is_fault(tok: &str) -> bool {
    tok == "err io" || tok == "err timeout"
}

pub fn fault_free(trace: &[String]) -> Vec<String> {
    // drop transient faults, then re-coalesce writes that became adjacent
    let mut out: Vec<String> = vec![];
    for t in trace.iter().filter(|t| !is_fault(t)) {
        if t.starts_with("w=") {
            if let Some(last) = out.last_mut() {
                if last.starts_with("w=") {
                    last.push_str(&t[2..]);
                    continue;
                }
            }
        }
        out.push(t.clone());
    }
    out
}

pub struct Case {
    pub fl: Flavour,
    pub compressed: bool,
    pub verify: bool,
    pub frames: Vec<Vec<u8>>,
    pub events: Vec<Ev>,
    /// behaviour of the write half while reading (keep-alive replies): short accepts / Pending only, never errors,
    /// so the model's answer (the whole reply is written) does not depend on it
    pub wscript: Vec<WEv>,
}

/// run one read-side case: correspondence line + the three oracles (C05 / C07 / C09 share the run)
pub fn read_case(ctx: &mut Ctx, prop: &str, case: &Case) -> Vec<String> {
    let (tbl_s, tbl) = class_table(case.compressed, &case.frames);
    let r = run_reads(case.fl, case.compressed, case.verify, case.events.clone(), case.wscript.clone());
    let mut op = format!("framed.read {} {} {} {} {}", case.fl.tok(), mode_tok(case.compressed), v_tok(case.verify), tbl_s, script_text(&r.log));
    if !case.wscript.is_empty() { op.push_str(&format!(" ws={}", wscript_text(&case.wscript))); } else { op.push_str(&hs_suffix()); }
    let res = if r.trace.is_empty() { "-".to_string() } else { r.trace.join(";") };
    ctx.case(&op, &res);
    // ---- oracle: the property's observable statement on the real connection
    // a frame whose size byte announces exactly its own length, within what a size byte can announce (4..=1020 bytes
    // compressed, 4..=255 uncompressed), is never a framing error: it is a packet or an undecodable frame
    for f in &case.frames {
        let announced = if case.compressed { f[0] as usize * 4 } else { f[0] as usize };
        if f.len() >= 4 && announced == f.len() && tbl[f] == "F" {
            ctx.violation(&format!("c05/framing/well-framed-rejected/{}", mode_tok(case.compressed)), "a complete frame whose size byte announces exactly its length was treated as a framing error", &format!("conn.case {} {} v0 {} d:{},z", case.fl.tok(), mode_tok(case.compressed), hex(f), hex(f)), "a packet or a decode error", "framing error");
        }
    }
    let valid = case.frames.iter().all(|f| tbl[f] != "F");
    let stream: Vec<u8> = case.frames.concat();
    let delivered: Vec<u8> = case.events.iter().filter_map(|e| if let Ev::Data(b) = e { Some(b.clone()) } else { None }).flatten().collect();
    if valid && stream == delivered && matches!(case.events.last(), Some(Ev::Eof)) {
        let exp = expected_trace(case.compressed, case.verify, &case.frames, &tbl);
        let got = fault_free(&r.trace);
        let mut replay = format!("conn.case {} {} {} {} {}", case.fl.tok(), mode_tok(case.compressed), v_tok(case.verify),
            case.frames.iter().map(|f| hex(f)).collect::<Vec<_>>().join("+"), script_text(&case.events));
        if !case.wscript.is_empty() { replay.push_str(&format!(" ws={}", wscript_text(&case.wscript))); } else { replay.push_str(&hs_suffix()); }
        if got != exp && !exp.contains(&"abort".to_string()) {
            // attribute the difference
            let strip = |v: &[String]| v.iter().filter(|t| !t.starts_with("w=")).cloned().collect::<Vec<_>>();
            if strip(&got) != strip(&exp) {
                let has_ver = exp.iter().chain(got.iter()).any(|t| t.starts_with("err version") || t.starts_with("pkt V."));
                if has_ver && prop == "C09" {
                    ctx.violation(&format!("c09/gate/{}", case.fl.tok()), "version gate decision differs from 'deliver iff 9 when enabled'", &replay, &exp.join(";"), &got.join(";"));
                } else {
                    ctx.violation(&format!("c05/reassembly/{}", case.fl.tok()), "read results are not one result per frame, in order, then disconnected", &replay, &exp.join(";"), &got.join(";"));
                }
            } else {
                ctx.violation(&format!("{}/pong/{}", if prop == "C06" { "c06" } else { "c07" }, case.fl.tok()), "keep-alive replies are not exactly one complete TINY_NONE per keep-alive, written before its delivery", &replay, &exp.join(";"), &got.join(";"));
            }
        }
        let faults_in = r.log.iter().filter(|e| matches!(e, Ev::IoErr | Ev::Timeout)).count();
        let faults_out = r.trace.iter().filter(|t| is_fault(t)).count();
        if faults_in != faults_out && !r.trace.contains(&"abort".to_string()) {
            ctx.violation(&format!("c05/faults/{}", case.fl.tok()), "a transient transport error did not surface as exactly one error result", &replay, &faults_in.to_string(), &faults_out.to_string());
        }
    }
    r.trace
}

pub fn parse_events(s: &str) -> Vec<Ev> {
    if s == "-" { return vec![]; }
    s.split(',').map(|t| match t {
        "p" => Ev::Pending, "e" => Ev::IoErr, "t" => Ev::Timeout, "z" => Ev::Eof,
        d => Ev::Data(unhex(d.trim_start_matches("d:"))),
    }).collect()
}
pub fn parse_wevents(s: &str) -> Vec<WEv> {
    if s == "-" { return vec![]; }
    s.split(',').map(|t| match t {
        "p" => WEv::Pending, "e" => WEv::IoErr,
        a => WEv::Accept(a.trim_start_matches('a').parse().unwrap_or(0)),
    }).collect()
}

pub fn replay_line(ctx: &mut Ctx, prop: &str, l: &str) -> bool {
    let w: Vec<&str> = l.split_whitespace().collect();
    match w.as_slice() {
        ["conn.case", fl, m, v, frames, evs] | ["conn.case", fl, m, v, frames, evs, _] => {
            let (ws, hs) = parse_seventh(w.get(6));
            if ws.iter().any(|e| matches!(e, WEv::IoErr)) {
                // a failing write half during reads: the oracle-only keep-alive clause (see pong_fault_case)
                let k = match ws.first() { Some(WEv::Accept(n)) => *n, _ => 0 };
                pong_fault_case(ctx, if *fl == "tokio" { Flavour::Tokio } else { Flavour::Blocking }, *m == "c", k);
                return true;
            }
            HANDSHAKE.with(|h| h.set(hs));
            let case = Case {
                fl: if *fl == "tokio" { Flavour::Tokio } else { Flavour::Blocking },
                compressed: *m == "c",
                verify: parse_v(v),
                frames: if *frames == "-" { vec![] } else { frames.split('+').map(unhex).collect() },
                events: parse_events(evs),
                wscript: ws,
            };
            let _ = read_case(ctx, prop, &case);
            HANDSHAKE.with(|h| h.set(None));
            PREWRITE.with(|p| *p.borrow_mut() = None);
            MID_HANDSHAKE.with(|m| m.set(None));
            HS_VERSION.with(|h| h.set(None));
            VERIFY_TOGGLE.with(|t| t.set(false));
            crate::transport::SLOW.with(|c| c.set(0));
            true
        },
        ["framed.read", fl, m, v, tbl, evs] | ["framed.read", fl, m, v, tbl, evs, _] => {
            // a bare correspondence line: the frames are the keys of the class table
            let (ws, hs) = parse_seventh(w.get(6));
            HANDSHAKE.with(|h| h.set(hs));
            let frames: Vec<Vec<u8>> = if *tbl == "-" { vec![] } else { tbl.split(';').map(|kv| unhex(kv.split('=').next().unwrap())).collect() };
            let r = run_reads(if *fl == "tokio" { Flavour::Tokio } else { Flavour::Blocking }, *m == "c", parse_v(v), parse_events(evs), ws.clone());
            let (tbl_s, _) = class_table(*m == "c", &frames);
            let mut op = format!("framed.read {} {} {} {} {}", fl, m, v, tbl_s, script_text(&r.log));
            if !ws.is_empty() { op.push_str(&format!(" ws={}", wscript_text(&ws))); } else { op.push_str(&hs_suffix()); }
            HANDSHAKE.with(|h| h.set(None));
            PREWRITE.with(|p| *p.borrow_mut() = None);
            MID_HANDSHAKE.with(|m| m.set(None));
            HS_VERSION.with(|h| h.set(None));
            VERIFY_TOGGLE.with(|t| t.set(false));
            crate::transport::SLOW.with(|c| c.set(0));
            ctx.case(&op, &if r.trace.is_empty() { "-".to_string() } else { r.trace.join(";") });
            true
        },
        _ => false,
    }
}

/// the two public decision functions the read loops consult, on every TINY / every version / every other kind
fn decision_functions(ctx: &mut Ctx, prop: &str, pool: &Pool, compressed: bool) {
    let sb = size_byte(compressed, 4);
    if prop == "C07" {
        for reqi in 0..=255u8 {
            for subt in 0..=40u8 {
                let f = vec![sb, 3, reqi, subt];
                let p = match packet_of(compressed, &f) { Some(p) => p, None => continue };   // undefined sub-type: a decode error
                ctx.oracle_eval("maybe_pong");
                let is_ka = reqi == 0 && subt == 0;
                let pong = guard(std::panic::AssertUnwindSafe(|| p.maybe_pong()));
                let pong_bytes = pong.clone().flatten().and_then(|q| Codec::new(mode_of(compressed)).encode(&q).ok().map(|b| b.to_vec()));
                let via_tiny = if let Packet::Tiny(t) = &p { Some(t.is_keepalive()) } else { None };
                let ok = match (&pong, is_ka) { (Some(Some(_)), true) => pong_bytes.as_deref() == Some(&[sb, 3, 0, 0][..]), (Some(None), false) => true, _ => false };
                if !ok {
                    ctx.violation("c07/maybe_pong", "Packet::maybe_pong does not answer exactly the keep-alive (TINY_NONE with request id 0) with a keep-alive", &format!("tiny {}", hex(&f)), if is_ka { "Some(keep-alive)" } else { "None" }, &format!("{:?}", pong_bytes.map(|b| hex(&b))));
                }
                if via_tiny != Some(is_ka) {
                    ctx.violation("c07/is_keepalive", "Tiny::is_keepalive disagrees with 'TINY_NONE with request id 0'", &format!("tiny {}", hex(&f)), &is_ka.to_string(), &format!("{:?}", via_tiny));
                }
            }
        }
        for (_, f) in &pool.by_type {
            if f[1] == 3 { continue; }
            if let Some(p) = packet_of(compressed, f) {
                ctx.oracle_eval("maybe_pong");
                if guard(std::panic::AssertUnwindSafe(|| p.maybe_pong().is_some())) != Some(false) {
                    ctx.violation("c07/maybe_pong/other-kind", "a packet that is not a keep-alive is answered", &format!("pkt {}", hex(f)), "None", "Some");
                }
            }
        }
    }
    if prop == "C09" {
        for v in 0..=255usize {
            for reqi in [0u8, 1, 255] {
                let mut f = pool.ver[v].clone(); f[2] = reqi;
                let p = match packet_of(compressed, &f) { Some(p) => p, None => continue };
                ctx.oracle_eval("maybe_verify_version");
                let r = guard(std::panic::AssertUnwindSafe(|| p.maybe_verify_version().map_err(|e| format!("{:?}", e))));
                let ok = match (&r, v) { (Some(Ok(true)), 9) => true, (Some(Err(e)), x) if x != 9 => e.contains(&format!("IncompatibleVersion({})", x)), _ => false };
                if !ok {
                    ctx.violation("c09/maybe_verify_version", "Packet::maybe_verify_version is not 'Ok(true) for version 9, IncompatibleVersion(v) otherwise'", &format!("ver {}", hex(&f)), if v == 9 { "Ok(true)" } else { "Err(IncompatibleVersion(v))" }, &format!("{:?}", r));
                }
            }
        }
        for (_, f) in &pool.by_type {
            if f[1] == 2 { continue; }
            if let Some(p) = packet_of(compressed, f) {
                ctx.oracle_eval("maybe_verify_version");
                if guard(std::panic::AssertUnwindSafe(|| matches!(p.maybe_verify_version(), Ok(false)))) != Some(true) {
                    ctx.violation("c09/maybe_verify_version/other-kind", "a packet that is not IS_VER does not pass the gate", &format!("pkt {}", hex(f)), "Ok(false)", "other");
                }
            }
        }
    }
}

/// the shared generator: frame sequences x partitions x faults x flavours x modes
pub fn generate_reads(ctx: &mut Ctx, prop: &str) {
    let quick = ctx.quick();
    for compressed in [true, false] {
        let pool = build_pool(compressed);
        decision_functions(ctx, prop, &pool, compressed);
        ctx.count(&format!("pool kinds decodable from a zero body ({})", mode_tok(compressed)));
        *ctx.distribution.entry(format!("pool.kinds.{}", mode_tok(compressed))).or_insert(0) = pool.by_type.len() as u64;
        let ka = vec![size_byte(compressed, 4), 3, 0, 0];
        let ping = vec![size_byte(compressed, 4), 3, 7, 3];
        // 1. exhaustive segmentations of short streams (all 2^(n-1) compositions)
        let shorts: Vec<Vec<Vec<u8>>> = vec![
            vec![ka.clone(), ping.clone(), ka.clone()],
            vec![ping.clone(), pool.bad[0].clone()],
            vec![pool.bad[5].clone(), ka.clone()],
            vec![ka.clone(), vec![size_byte(compressed, 8), 4, 1, 1, 10, 0, 0, 0]],
        ];
        for fl in [Flavour::Blocking, Flavour::Tokio] {
            for (si, frames) in shorts.iter().enumerate() {
                if prop != "C05" && si > 0 && quick { continue; }
                let stream = frames.concat();
                let n = stream.len();
                let step = if quick && n > 10 { 3 } else { 1 };
                let mut mask = 0u64;
                while mask < (1u64 << (n - 1)) {
                    let mut evs = partition_by_mask(&stream, mask);
                    evs.push(Ev::Eof);
                    let _ = read_case(ctx, prop, &Case { fl, compressed, verify: false, frames: frames.clone(), events: evs, wscript: vec![] });
                    mask += step;
                }
            }
        }
        ctx.exhaustive_domains.push(format!("all segmentations of 4 short streams (8..12 bytes), both flavours, mode {}{}", mode_tok(compressed), if quick { " (every 3rd composition of the 12-byte stream in quick)" } else { "" }));
        // 1c. texts that run to the end of their frame without a NUL, followed by other packets in the same segment
        {
            let exact = exact_text_frames(compressed);
            *ctx.distribution.entry(format!("exact-fit text frames ({})", mode_tok(compressed))).or_insert(0) = exact.len() as u64;
            for fl in [Flavour::Blocking, Flavour::Tokio] {
                for e in &exact {
                    for frames in [vec![e.clone(), ping.clone()], vec![ka.clone(), e.clone(), e.clone(), ping.clone()]] {
                        for style in [1u64, 2, 4] {
                            let mut evs = random_partition(&mut ctx.rng, &frames.concat(), style);
                            evs.push(Ev::Eof);
                            let _ = read_case(ctx, prop, &Case { fl, compressed, verify: false, frames: frames.clone(), events: evs, wscript: vec![] });
                        }
                    }
                }
            }
        }
        // 1d. the same short sessions after the connection has performed its handshake (request id 0 as the builder sends it, and 1)
        for fl in [Flavour::Blocking, Flavour::Tokio] {
            for hs in [0u8, 1] {
                for verify in [false, true] {
                    for frames in [vec![ka.clone(), ping.clone(), ka.clone()], vec![ping.clone(), pool.ver[9].clone(), ka.clone(), pool.bad[0].clone(), ping.clone()]] {
                        for style in [0u64, 1, 2] {
                            let mut evs = random_partition(&mut ctx.rng, &frames.concat(), style);
                            evs.push(Ev::Eof);
                            HANDSHAKE.with(|h| h.set(Some(hs)));
                            let _ = read_case(ctx, prop, &Case { fl, compressed, verify, frames: frames.clone(), events: evs, wscript: vec![] });
                            HANDSHAKE.with(|h| h.set(None));
                        }
                    }
                }
            }
        }
        // 1f. a handshake in the middle of a session (after the 1st / 2nd / 3rd result), with complete frames and with part of a
        // frame already buffered behind the packet just returned
        for fl in [Flavour::Blocking, Flavour::Tokio] {
            let frames = vec![ping.clone(), vec![size_byte(compressed, 4), 3, 2, 3], ka.clone(), vec![size_byte(compressed, 8), 4, 1, 6, 0xfd, 2, 0, 0], ping.clone()];
            let stream = frames.concat();
            for after in [1usize, 2, 3] {
                for evs in [vec![Ev::Data(stream.clone()), Ev::Eof], vec![Ev::Data(stream[..14].to_vec()), Ev::Data(stream[14..].to_vec()), Ev::Eof], vec![Ev::Data(stream[..6].to_vec()), Ev::Data(stream[6..].to_vec()), Ev::Eof]] {
                    MID_HANDSHAKE.with(|m| m.set(Some((after, 0))));
                    let _ = read_case(ctx, prop, &Case { fl, compressed, verify: false, frames: frames.clone(), events: evs, wscript: vec![] });
                    MID_HANDSHAKE.with(|m| m.set(None));
                }
            }
        }
        // 1e. a backlog larger than the connection's 6120-byte receive buffer, offered in one piece and in pieces that never let
        // the buffer run empty, with a frame straddling the 6120th byte — keep-alives before, across and after that point
        {
            let small8 = vec![size_byte(compressed, 8), 4, 1, 6, 0xfd, 2, 0, 0];
            let bigs = big_frames(compressed);
            let big = bigs.iter().max_by_key(|f| f.len()).cloned().unwrap_or(small8.clone());
            for variant in 0..4usize {
                let mut frames: Vec<Vec<u8>> = vec![];
                let mut total = 0usize;
                // fill up to just below 6120 so that the next (multi-word) frame straddles the mark at different offsets
                let target = [6116usize, 6112, 6100, 5900][variant];
                while total + big.len() + 4 <= target { frames.push(big.clone()); total += big.len(); frames.push(ka.clone()); total += 4; }
                while total + 4 <= target { frames.push(ka.clone()); total += 4; }
                frames.push(if variant == 3 { big.clone() } else { small8.clone() });
                frames.push(ka.clone());
                frames.push(ping.clone());
                frames.push(big.clone());
                frames.push(ka.clone());
                let stream = frames.concat();
                for fl in [Flavour::Blocking, Flavour::Tokio] {
                    for evs in [vec![Ev::Data(stream.clone()), Ev::Eof],
                                vec![Ev::Data(stream[..3000].to_vec()), Ev::Data(stream[3000..].to_vec()), Ev::Eof],
                                vec![Ev::Data(stream[..6120.min(stream.len())].to_vec()), Ev::Data(stream[6120.min(stream.len())..].to_vec()), Ev::Eof]] {
                        let _ = read_case(ctx, prop, &Case { fl, compressed, verify: false, frames: frames.clone(), events: evs, wscript: vec![] });
                    }
                }
            }
        }
        // 1g. a slow peer: the same frames dribbling in a few bytes at a time with 40 (virtual) seconds of silence before every
        // piece — each silence far below the 90 s idle limit, their sum far above it. The result may depend on a single
        // silence only, never on how many pieces a frame took (tokio; the blocking transport has no clock and ignores the waits)
        {
            let frames = vec![ping.clone(), vec![size_byte(compressed, 8), 4, 9, 6, 0xfd, 2, 0, 0], ka.clone(), ping.clone()];
            let stream = frames.concat();
            for fl in [Flavour::Blocking, Flavour::Tokio] {
                for piece in [1usize, 3, 4, 16] {
                    let mut evs = vec![];
                    for c in stream.chunks(piece) { evs.push(Ev::Pending); evs.push(Ev::Data(c.to_vec())); }
                    evs.push(Ev::Eof);
                    crate::transport::SLOW.with(|c| c.set(40));
                    let _ = read_case(ctx, prop, &Case { fl, compressed, verify: false, frames: frames.clone(), events: evs, wscript: vec![] });
                    crate::transport::SLOW.with(|c| c.set(0));
                }
            }
        }
        // 1b. the largest frames a size byte can announce (255 x 4 = 1020 bytes compressed, 255 bytes uncompressed), decodable
        // (a padded TINY) and undecodable (unknown type), between ordinary frames
        {
            let maxlen = if compressed { 1020 } else { 255 };
            for len in [maxlen, maxlen - (if compressed { 4 } else { 3 })] {
                let mut big = vec![0u8; len]; big[0] = size_byte(compressed, len); big[1] = 3; big[2] = 7; big[3] = 3;
                let mut bigbad = vec![0u8; len]; bigbad[0] = size_byte(compressed, len); bigbad[1] = 200;
                for fl in [Flavour::Blocking, Flavour::Tokio] {
                    for frames in [vec![ka.clone(), big.clone(), ping.clone(), big.clone(), ka.clone()], vec![ping.clone(), bigbad.clone(), ping.clone()], vec![big.clone()]] {
                        for style in [0u64, 1, 2, 3, 4] {
                            if quick && style == 0 && frames.len() > 1 { continue; }
                            let mut evs = random_partition(&mut ctx.rng, &frames.concat(), style);
                            evs.push(Ev::Eof);
                            let _ = read_case(ctx, prop, &Case { fl, compressed, verify: false, frames: frames.clone(), events: evs, wscript: vec![] });
                        }
                    }
                }
            }
        }
        // 2. C07: all TINY sub-types x request ids, and one frame of every other kind, in every position of short histories
        if prop == "C07" || !quick {
            for fl in [Flavour::Blocking, Flavour::Tokio] {
                for subt in 0..=31u8 {
                    let reqis: Vec<u8> = if quick && subt > 0 { vec![0, 1, 255] } else { (0..=255).collect() };
                    for reqi in reqis {
                        let t = vec![size_byte(compressed, 4), 3, reqi, subt];
                        let frames = vec![ka.clone(), t.clone(), ka.clone()];
                        let style = ctx.rng.next();
                        let mut evs = random_partition(&mut ctx.rng, &frames.concat(), style);
                        evs.push(Ev::Eof);
                        let _ = read_case(ctx, prop, &Case { fl, compressed, verify: false, frames, events: evs, wscript: vec![] });
                    }
                }
                for (_, f) in &pool.by_type {
                    for pos in 0..3 {
                        let mut frames = vec![ka.clone(), ka.clone()];
                        frames.insert(pos, f.clone());
                        let style = ctx.rng.next();
                        let mut evs = random_partition(&mut ctx.rng, &frames.concat(), style);
                        evs.push(Ev::Eof);
                        let verify = ctx.rng.chance(1, 2);
                        let _ = read_case(ctx, prop, &Case { fl, compressed, verify, frames, events: evs, wscript: vec![] });
                    }
                }
            }
            ctx.exhaustive_domains.push(format!("TINY sub-types 0..31 x request ids ({}) and one frame of every decodable kind in positions 0..2 of a keep-alive history, mode {}", if quick { "0,1,255; all 256 for sub-type 0" } else { "all 256" }, mode_tok(compressed)));
        }
        // 3. C09: all 256 versions x on/off x flavours x positions 0..3
        if prop == "C09" || !quick {
            for fl in [Flavour::Blocking, Flavour::Tokio] {
                for verify in [true, false] {
                    for n in 0..=255usize {
                        let pos = n % 4;
                        let mut frames = vec![ping.clone(), ka.clone(), pool.by_type[(n * 7) % pool.by_type.len()].1.clone()];
                        frames.insert(pos.min(frames.len()), pool.ver[n].clone());
                        let style = ctx.rng.next();
                        let mut evs = random_partition(&mut ctx.rng, &frames.concat(), style);
                        evs.push(Ev::Eof);
                        let _ = read_case(ctx, prop, &Case { fl, compressed, verify, frames, events: evs, wscript: vec![] });
                    }
                    // the gate is a property of *every position* of a history: a good version packet (or several) followed
                    // later by a bad one, solicited (request id 1) and unsolicited (request id 0)
                    for (v1, v2) in [(9usize, 8usize), (9, 10), (9, 0), (9, 255), (8, 9), (9, 9), (10, 8)] {
                        for reqi in [0u8, 1] {
                            let mut a = pool.ver[v1].clone(); a[2] = reqi;
                            let mut b = pool.ver[v2].clone(); b[2] = reqi;
                            for frames in [vec![a.clone(), ping.clone(), b.clone(), ping.clone()], vec![a.clone(), a.clone(), ka.clone(), b.clone()], vec![ping.clone(), a.clone(), b.clone()]] {
                                let style = ctx.rng.next();
                                let mut evs = random_partition(&mut ctx.rng, &frames.concat(), style);
                                evs.push(Ev::Eof);
                                let _ = read_case(ctx, prop, &Case { fl, compressed, verify, frames, events: evs, wscript: vec![] });
                            }
                        }
                    }
                    // the setting is whatever the last call to the setter said: switched the other way first, then to `verify`
                    for v in [0usize, 8, 9, 10, 255] {
                        let frames = vec![ping.clone(), pool.ver[v].clone(), ping.clone()];
                        let style = ctx.rng.next();
                        let mut evs = random_partition(&mut ctx.rng, &frames.concat(), style);
                        evs.push(Ev::Eof);
                        VERIFY_TOGGLE.with(|t| t.set(true));
                        let _ = read_case(ctx, prop, &Case { fl, compressed, verify, frames, events: evs, wscript: vec![] });
                        VERIFY_TOGGLE.with(|t| t.set(false));
                    }
                    // the gate looks at the InSimVer byte and at nothing else of the packet: the spare bytes around it, the version
                    // and product texts may hold anything
                    for v in [9usize, 8, 0, 255] {
                        for (pos, val) in [(19usize, 1u8), (19, 9), (19, 255), (3, 1), (3, 255), (17, 0x39), (4, 0x31), (12, 0)] {
                            let mut b = pool.ver[v].clone(); b[pos] = val;
                            let frames = vec![ping.clone(), b.clone(), ping.clone()];
                            let style = ctx.rng.next();
                            let mut evs = random_partition(&mut ctx.rng, &frames.concat(), style);
                            evs.push(Ev::Eof);
                            let _ = read_case(ctx, prop, &Case { fl, compressed, verify, frames, events: evs, wscript: vec![] });
                        }
                    }
                    // … and of whatever else the connection did before: the handshake (request id 0 as the builder sends it, and non-zero)
                    for hs in [0u8, 1, 255] {
                        for v in [0usize, 8, 9, 10, 255] {
                            for reqi in [0u8, 1] {
                                let mut b = pool.ver[v].clone(); b[2] = reqi;
                                let frames = vec![ping.clone(), b.clone(), ping.clone()];
                                let style = ctx.rng.next();
                                let mut evs = random_partition(&mut ctx.rng, &frames.concat(), style);
                                evs.push(Ev::Eof);
                                HANDSHAKE.with(|h| h.set(Some(hs)));
                                let _ = read_case(ctx, prop, &Case { fl, compressed, verify, frames, events: evs, wscript: vec![] });
                                HANDSHAKE.with(|h| h.set(None));
                            }
                        }
                    }
                    // … a handshake that asked for another InSim version: what counts is still 9, not what was asked for
                    for hv in [8u8, 10, 0, 255, 9] {
                        for rv in [hv as usize, 9, 8] {
                            let mut b = pool.ver[rv].clone(); b[2] = 1;
                            let frames = vec![ping.clone(), b.clone(), pool.ver[9].clone(), ping.clone()];
                            let mut evs = random_partition(&mut ctx.rng, &frames.concat(), 1);
                            evs.push(Ev::Eof);
                            HANDSHAKE.with(|h| h.set(Some(1)));
                            HS_VERSION.with(|h| h.set(Some(hv)));
                            let _ = read_case(ctx, prop, &Case { fl, compressed, verify, frames, events: evs, wscript: vec![] });
                            HANDSHAKE.with(|h| h.set(None));
                            HS_VERSION.with(|h| h.set(None));
                        }
                    }
                    // … or wrote before: one packet of every kind written first, then a refused and an accepted version
                    if verify {
                        for (_, wf) in &pool.by_type {
                            let mut b = pool.ver[8].clone(); b[2] = 1;
                            let frames = vec![ping.clone(), b.clone(), pool.ver[9].clone(), ping.clone()];
                            let mut evs = random_partition(&mut ctx.rng, &frames.concat(), 1);
                            evs.push(Ev::Eof);
                            PREWRITE.with(|p| *p.borrow_mut() = Some(wf.clone()));
                            let _ = read_case(ctx, prop, &Case { fl, compressed, verify, frames, events: evs, wscript: vec![] });
                            PREWRITE.with(|p| *p.borrow_mut() = None);
                        }
                    }
                    // every other kind passes the gate
                    for (_, f) in &pool.by_type {
                        let frames = vec![f.clone(), ping.clone()];
                        let mut evs = random_partition(&mut ctx.rng, &frames.concat(), 1);
                        evs.push(Ev::Eof);
                        let _ = read_case(ctx, prop, &Case { fl, compressed, verify, frames, events: evs, wscript: vec![] });
                    }
                }
            }
            ctx.exhaustive_domains.push(format!("all 256 InSim version values x gate on/off x both flavours x positions 0..3; every decodable kind through the gate, mode {}", mode_tok(compressed)));
        }
        // 4. random histories: mixed kinds, bad frames, faults, long sessions
        let n_random = match (prop, quick) { ("C05", true) => 400, (_, true) => 120, ("C05", false) => 20_000, (_, false) => 4_000 };
        for i in 0..n_random {
            let fl = if i % 2 == 0 { Flavour::Blocking } else { Flavour::Tokio };
            let long = i % 40 == 7 || i % 40 == 8; // one tokio and one blocking long session per 40
            let k = if long { 700 + ctx.rng.below(400) as usize } else { ctx.rng.below(7) as usize };
            let mut frames = vec![];
            for _ in 0..k {
                let r = ctx.rng.below(100);
                let f = if r < 25 { ctx.rng.pick(&pool.tiny).clone() }
                    else if r < 35 { ka.clone() }
                    else if r < 45 { ctx.rng.pick(&pool.ver).clone() }
                    else if r < 55 { ctx.rng.pick(&pool.bad).clone() }
                    else {
                        let mut f = ctx.rng.pick(&pool.by_type).1.clone();
                        if ctx.rng.chance(1, 4) {
                            // perturb the body: the real decoder decides what it is
                            let n = f.len();
                            if n > 4 { let j = 3 + ctx.rng.below((n - 3) as u64) as usize; f[j] = ctx.rng.byte(); }
                        }
                        f
                    };
                frames.push(f);
            }
            let stream = frames.concat();
            let style = ctx.rng.next();
            let mut evs = random_partition(&mut ctx.rng, &stream, style);
            let density = [0u64, 0, 3, 8, 30][ctx.rng.below(5) as usize];
            evs = sprinkle_faults(&mut ctx.rng, evs, fl, density);
            evs.push(Ev::Eof);
            let verify = ctx.rng.chance(1, 2);
            // every third session: the write half accepts only a few bytes per call (and, for tokio, is sometimes not
            // ready) while the keep-alive replies are written from inside read
            let wscript: Vec<WEv> = if ctx.rng.chance(1, 3) {
                (0..frames.len() * 6 + 8).map(|_| if fl == Flavour::Tokio && ctx.rng.chance(1, 4) { WEv::Pending } else { WEv::Accept(1 + ctx.rng.below(3) as usize) }).collect()
            } else { vec![] };
            let _ = read_case(ctx, prop, &Case { fl, compressed, verify, frames, events: evs, wscript });
            if long { ctx.count(&format!("long sessions (> 6120 bytes): {}", stream.len() > 6120)); }
        }
        // 5. framing faults: impossible announced lengths mid-stream, truncated final frame
        if prop == "C05" {
            for fl in [Flavour::Blocking, Flavour::Tokio] {
                for bad_size in [0u8, 1, 2, 3, 255] {
                    let mut stream = ka.clone();
                    stream.extend_from_slice(&[bad_size, 3, 0, 0, 1, 2, 3, 4]);
                    let mut evs = random_partition(&mut ctx.rng, &stream, 2);
                    evs.push(Ev::Eof);
                    let _ = read_case(ctx, prop, &Case { fl, compressed, verify: false, frames: vec![ka.clone(), vec![bad_size, 3, 0, 0, 1, 2, 3, 4]], events: evs, wscript: vec![] });
                }
                let mut stream = ping.clone();
                stream.extend_from_slice(&pool.ver[9][..11]);
                let mut evs = random_partition(&mut ctx.rng, &stream, 2);
                evs.push(Ev::Eof);
                let _ = read_case(ctx, prop, &Case { fl, compressed, verify: false, frames: vec![ping.clone()], events: evs, wscript: vec![] });
            }
        }
    }
}

pub fn run(ctx: &mut Ctx, prop: &str) {
    if let Some(lines) = ctx.replay.clone() {
        for l in lines {
            if !replay_line(ctx, prop, &l) && prop == "C06" {
                crate::c06::replay_line(ctx, &l);
            }
        }
        return;
    }
    if prop == "C06" {
        crate::c06::generate(ctx);
        // the replies a connection writes on its own (keep-alives, from inside read) are packets handed to the same
        // write path: the same acceptance patterns apply to them
        for fl in [Flavour::Blocking, Flavour::Tokio] {
            for compressed in [true, false] {
                let ka = vec![size_byte(compressed, 4), 3, 0, 0];
                let other = vec![size_byte(compressed, 4), 3, 7, 3];
                for k in 1..=4usize {
                    for pend in [false, true] {
                        if pend && fl == Flavour::Blocking { continue; }
                        let frames = vec![ka.clone(), other.clone(), ka.clone(), ka.clone()];
                        let mut evs = vec![Ev::Data(frames.concat())];
                        evs.push(Ev::Eof);
                        let wscript: Vec<WEv> = (0..40).map(|i| if pend && i % 2 == 0 { WEv::Pending } else { WEv::Accept(k) }).collect();
                        let _ = read_case(ctx, prop, &Case { fl, compressed, verify: false, frames, events: evs, wscript });
                    }
                }
            }
        }
    } else {
        generate_reads(ctx, prop);
        if prop == "C07" {
            for fl in [Flavour::Blocking, Flavour::Tokio] { for compressed in [true, false] { for k in [0usize, 1, 2, 3] { pong_fault_case(ctx, fl, compressed, k); } } }
        }
    }
}

/// the reply cannot be written (the write half fails, at once or after a few bytes): a keep-alive is handed to the caller
/// only after one complete TINY_NONE frame has been written for it — so none may be handed over here without its reply
pub fn pong_fault_case(ctx: &mut Ctx, fl: Flavour, compressed: bool, accepted_before_fault: usize) {
    let ka = vec![size_byte(compressed, 4), 3, 0, 0];
    let ping = vec![size_byte(compressed, 4), 3, 7, 3];
    let frames = vec![ping.clone(), ka.clone(), ping.clone()];
    let mut ws = vec![];
    if accepted_before_fault > 0 { ws.push(WEv::Accept(accepted_before_fault)); }
    ws.push(WEv::IoErr);
    for _ in 0..8 { ws.push(WEv::Accept(4)); }
    let evs = vec![Ev::Data(frames.concat()), Ev::Eof];
    ctx.oracle_eval("pong-fault");
    let r = run_reads(fl, compressed, false, evs, ws.clone());
    let delivered = r.trace.iter().filter(|t| t.as_str() == "pkt T.0.0").count();
    // complete reply frames among the bytes that reached the transport
    let mut complete = 0usize;
    let mut i = 0;
    while i + 4 <= r.out.len() { if r.out[i..i + 4] == ka[..] { complete += 1; i += 4; } else { i += 1; } }
    if delivered > complete {
        let input = format!("conn.case {} {} v0 {} d:{},z ws={}", fl.tok(), mode_tok(compressed), frames.iter().map(|f| hex(f)).collect::<Vec<_>>().join("+"), hex(&frames.concat()), wscript_text(&ws));
        ctx.violation(&format!("c07/pong-fault/{}", fl.tok()), "a keep-alive was handed to the caller although its reply could not be written", &input, &format!("{} keep-alive(s) delivered, at most {} complete replies on the wire", complete, complete), &format!("{} delivered; trace {}; out={}", delivered, r.trace.join(";"), hex(&r.out)));
    }
}

/// decode a frame into a packet (for the write-side tests)
pub fn packet_of(compressed: bool, frame: &[u8]) -> Option<Packet> {
    #[allow(unused_mut)] let mut c = Codec::new(mode_of(compressed));
    let mut buf = BytesMut::from(frame);
    guard(std::panic::AssertUnwindSafe(move || c.decode(&mut buf).ok().flatten())).flatten()
}
