//! C19 — cancelling a pending async read: the real future is polled by hand and dropped at chosen suspensions.
use crate::common::*;
use crate::conn::*;
use crate::transport::*;
use insim::net::Codec;
use std::collections::BTreeSet;
use std::future::Future;
use std::sync::Arc;
use std::task::{Context, Poll, Wake, Waker};

struct Noop;
impl Wake for Noop {
    fn wake(self: Arc<Self>) {}
}

pub struct Out {
    pub items: Vec<String>,
    pub out: Vec<u8>,
    pub suspensions: usize,
    pub dropped_in_write: bool,
}

pub const UNPOLLED: usize = 100000;

/// poll `read` by hand; after the n-th `Pending` (0-based, counted over the whole session) drop the future if n is in `drops`
pub fn run_cancel(compressed: bool, verify: bool, events: Vec<Ev>, wscript: Vec<WEv>, drops: &BTreeSet<usize>) -> Option<Out> {
    run_cancel_f(compressed, verify, events, wscript, vec![], drops)
}

/// … with a readiness script for the transport's `poll_flush` (`true` = not ready for that call)
pub fn run_cancel_f(compressed: bool, verify: bool, events: Vec<Ev>, wscript: Vec<WEv>, fscript: Vec<bool>, drops: &BTreeSet<usize>) -> Option<Out> {
    let drops = drops.clone();
    guard(std::panic::AssertUnwindSafe(move || {
        let rt = tokio::runtime::Builder::new_current_thread().enable_time().start_paused(true).build().unwrap();
        let _g = rt.enter();
        let script = Script::new(events, wscript);
        script.lock().unwrap().fscript = fscript.into();
        let tr = Transport(script.clone());
        let mut framed = insim::net::tokio_impl::Framed::new(Box::new(tr.clone()), Codec::new(mode_of(compressed)));
        framed.verify_version(verify);
        let waker = Waker::from(Arc::new(Noop));
        let mut cx = Context::from_waker(&waker);
        let mut items = vec![];
        let mut n = 0usize;
        let mut dropped_in_write = false;
        let mut budget = 1500usize;
        'session: loop {
            let before = script.lock().unwrap().injected;
            // drop index 100000 (never reached as a suspension count): every read future is first created and dropped *before
            // its first poll* — what a `select!` does with a losing branch; a future that was never polled has done nothing
            if drops.contains(&UNPOLLED) { let f0 = Box::pin(framed.read()); drop(f0); }
            let mut fut = Box::pin(framed.read());
            loop {
                budget -= 1;
                if budget == 0 { break 'session; }
                match fut.as_mut().poll(&mut cx) {
                    Poll::Ready(r) => {
                        let injected = script.lock().unwrap().injected > before;
                        let tok = match &r { Ok(p) => format!("pkt {}", cls_token(p)), Err(e) => err_token(e, injected) };
                        let fin = tok == "err disconnected" || tok == "err framing";
                        items.push(tok);
                        drop(fut);
                        if fin { break 'session; }
                        continue 'session;
                    },
                    Poll::Pending => {
                        // script exhausted while waiting?
                        let (ev_left, in_write) = { let s = script.lock().unwrap(); (s.events.len(), s.last_pending == 2) };
                        let stalled = script.lock().unwrap().stalled;
                        if stalled { break 'session; }
                        let this = n;
                        n += 1;
                        if drops.contains(&this) {
                            if in_write { dropped_in_write = true; }
                            drop(fut);
                            continue 'session;
                        }
                        let _ = ev_left;
                    },
                }
            }
        }
        let s = script.lock().unwrap();
        Out { items, out: s.out.clone(), suspensions: n, dropped_in_write }
    }))
}

fn drops_text(d: &BTreeSet<usize>) -> String {
    if d.is_empty() { "-".into() } else { d.iter().map(|x| x.to_string()).collect::<Vec<_>>().join(",") }
}

pub fn cancel_case(ctx: &mut Ctx, compressed: bool, verify: bool, frames: &[Vec<u8>], events: &[Ev], wscript: &[WEv], drops: &BTreeSet<usize>) {
    cancel_case_f(ctx, compressed, verify, frames, events, wscript, &[], drops)
}

#[allow(clippy::too_many_arguments)]
pub fn cancel_case_f(ctx: &mut Ctx, compressed: bool, verify: bool, frames: &[Vec<u8>], events: &[Ev], wscript: &[WEv], fscript: &[bool], drops: &BTreeSet<usize>) {
    let (tbl_s, _) = class_table(compressed, frames);
    let mut op = format!("cancel {} {} {} {} {} {}", mode_tok(compressed), if verify { "v1" } else { "v0" }, tbl_s, script_text(events), wscript_text(wscript), drops_text(drops));
    if !fscript.is_empty() { op.push_str(&format!(" fl={}", fscript.iter().map(|b| if *b { "1" } else { "0" }).collect::<Vec<_>>().join(","))); }
    let r = run_cancel_f(compressed, verify, events.to_vec(), wscript.to_vec(), fscript.to_vec(), drops);
    let res = match &r { None => "panic".to_string(), Some(o) => format!("{} | out={}", if o.items.is_empty() { "-".to_string() } else { o.items.join(";") }, hex(&o.out)) };
    ctx.case(&op, &res);
    // oracle: same deliveries and same outgoing bytes as the uninterrupted session
    if !drops.is_empty() {
        let base = run_cancel_f(compressed, verify, events.to_vec(), wscript.to_vec(), fscript.to_vec(), &BTreeSet::new());
        if let (Some(a), Some(b)) = (&r, &base) {
            // a session cut short by an exhausted script delivers a prefix; compare what both delivered
            if a.items != b.items || a.out != b.out {
                // the recorded finding loses a *keep-alive* whose reply was in flight; anything else that goes missing is new
                let mut rest: Vec<&String> = a.items.iter().collect();
                let mut missing: Vec<&String> = vec![];
                for t in &b.items { if let Some(i) = rest.iter().position(|x| *x == t) { let _ = rest.remove(i); } else { missing.push(t); } }
                // (the end-of-stream result may be missing too when the poll budget ran out; any *other* error result that
                // goes missing — a refused version, a decode error — is a lost result like a lost packet)
                let only_keepalives = missing.iter().all(|t| t.as_str() == "pkt T.0.0" || t.as_str() == "err disconnected") && missing.iter().any(|t| t.as_str() == "pkt T.0.0");
                let sig = if a.dropped_in_write && only_keepalives { "c19/cancel/keepalive-reply-in-flight" } else { "c19/cancel/other" };
                ctx.violation(sig, "dropping a pending read changed the packets later reads return or left a partial frame on the outgoing side", &op,
                    &format!("{} | out={}", b.items.join(";"), hex(&b.out)), &res);
            }
        }
    }
}

pub fn run(ctx: &mut Ctx) {
    if let Some(lines) = ctx.replay.clone() {
        for l in lines {
            let w: Vec<&str> = l.split_whitespace().collect();
            if let ["cancel", m, v, tbl, evs, wevs, drops] | ["cancel", m, v, tbl, evs, wevs, drops, _] = w.as_slice() {
                let frames: Vec<Vec<u8>> = if *tbl == "-" { vec![] } else { tbl.split(';').map(|kv| unhex(kv.split('=').next().unwrap())).collect() };
                let d: BTreeSet<usize> = if *drops == "-" { BTreeSet::new() } else { drops.split(',').filter_map(|x| x.parse().ok()).collect() };
                let fl: Vec<bool> = if w.len() == 8 { w[7].trim_start_matches("fl=").split(',').filter(|x| *x != "-").map(|x| x == "1").collect() } else { vec![] };
                cancel_case_f(ctx, *m == "c", *v == "v1", &frames, &parse_events(evs), &parse_wevents(wevs), &fl, &d);
            }
        }
        return;
    }
    let quick = ctx.quick();
    for compressed in [true, false] {
        let pool = build_pool(compressed);
        let ka = vec![size_byte(compressed, 4), 3, 0, 0];
        let ping = vec![size_byte(compressed, 4), 3, 7, 3];
        let mut any: Vec<Vec<u8>> = pool.by_type.iter().map(|(_, f)| f.clone()).filter(|f| f.len() <= 64).collect();
        // look-alikes of the keep-alive that must NOT make the connection write anything: TINY_NONE with a request id, other
        // sub-types with request id 0
        let tnz = vec![size_byte(compressed, 4), 3, 7, 0];
        for f in [tnz.clone(), vec![size_byte(compressed, 4), 3, 255, 0], vec![size_byte(compressed, 4), 3, 0, 3]] { any.push(f.clone()); any.push(f); }
        // 1. short sessions, every drop index (single drops and every pair)
        let shorts: Vec<(Vec<Vec<u8>>, Vec<WEv>)> = vec![
            (vec![ping.clone(), ka.clone(), ping.clone()], vec![]),
            (vec![ka.clone(), ping.clone()], vec![WEv::Pending, WEv::Accept(2), WEv::Pending, WEv::Accept(2)]),
            (vec![ping.clone(), ka.clone(), ka.clone(), ping.clone()], vec![WEv::Accept(1), WEv::Pending, WEv::Accept(3), WEv::Pending, WEv::Pending, WEv::Accept(4)]),
            (vec![ping.clone(), ping.clone()], vec![]),
            (vec![tnz.clone(), ping.clone(), tnz.clone()], vec![WEv::Pending, WEv::Accept(1), WEv::Pending, WEv::Accept(3), WEv::Pending, WEv::Pending, WEv::Accept(4)]),
        ];
        for (frames, ws) in &shorts {
            let stream = frames.concat();
            for style in 0..3u64 {
                // partitions with a Pending between all chunks
                let mut evs = vec![];
                for e in random_partition(&mut ctx.rng, &stream, [0u64, 2, 4][style as usize]) { evs.push(Ev::Pending); evs.push(e); }
                evs.push(Ev::Pending);
                evs.push(Ev::Eof);
                let base = run_cancel(compressed, false, evs.clone(), ws.clone(), &BTreeSet::new());
                let n = base.map(|b| b.suspensions).unwrap_or(0).min(if quick { 14 } else { 40 });
                cancel_case(ctx, compressed, false, frames, &evs, ws, &BTreeSet::new());
                // read futures created and dropped before their first poll: alone, and together with a dropped pending read
                cancel_case(ctx, compressed, false, frames, &evs, ws, &[UNPOLLED].into_iter().collect());
                // … also when whole frames are already waiting in the receive buffer (everything arrives in one piece)
                cancel_case(ctx, compressed, false, frames, &[Ev::Data(stream.clone()), Ev::Pending, Ev::Eof], ws, &[UNPOLLED].into_iter().collect());
                if n > 0 { cancel_case(ctx, compressed, false, frames, &evs, ws, &[0, UNPOLLED].into_iter().collect()); }
                for i in 0..n {
                    cancel_case(ctx, compressed, false, frames, &evs, ws, &[i].into_iter().collect());
                    for j in (i + 1)..n {
                        if quick && (i + j) % 3 != 0 { continue; }
                        cancel_case(ctx, compressed, false, frames, &evs, ws, &[i, j].into_iter().collect());
                    }
                }
            }
        }
        ctx.exhaustive_domains.push(format!("4 short sessions x 3 segmentations: every single drop index and {} pair of drop indices, mode {}", if quick { "every third" } else { "every" }, mode_tok(compressed)));
        // 2. random sessions: mixed frames, random readiness on both halves, random drop sets (a tick racing the read)
        for _ in 0..(if quick { 250 } else { 20_000 }) {
            let k = 1 + ctx.rng.below(6) as usize;
            let frames: Vec<Vec<u8>> = (0..k).map(|_| { let r = ctx.rng.below(10); if r < 3 { ka.clone() } else if r < 5 { ping.clone() } else { ctx.rng.pick(&any).clone() } }).collect();
            let style = ctx.rng.next();
            let mut evs = vec![];
            for e in random_partition(&mut ctx.rng, &frames.concat(), style) { while ctx.rng.chance(1, 2) { evs.push(Ev::Pending); } evs.push(e); }
            if ctx.rng.chance(1, 2) { evs.push(Ev::Pending); }
            evs.push(Ev::Eof);
            let with_writes = ctx.rng.chance(1, 2);
            let ws: Vec<WEv> = if with_writes { (0..12).map(|_| if ctx.rng.chance(1, 3) { WEv::Pending } else { WEv::Accept(1 + ctx.rng.below(4) as usize) }).collect() } else { vec![] };
            let nd = ctx.rng.below(5) as usize;
            let drops: BTreeSet<usize> = (0..nd).map(|_| ctx.rng.below(30) as usize).collect();
            let verify = ctx.rng.chance(1, 4);
            // a transport whose flush is sometimes not ready (every await point of the read future is a drop point)
            let fl: Vec<bool> = if ctx.rng.chance(1, 3) { (0..8).map(|_| ctx.rng.chance(1, 2)).collect() } else { vec![] };
            cancel_case_f(ctx, compressed, verify, &frames, &evs, &ws, &fl, &drops);
        }
        // 6. a long backlog in one segment (100 and 200 small frames decoded back to back with no transport read in between): every
        // suspension of such a session is a drop point like any other
        for nframes in [100usize, 200] {
            let frames: Vec<Vec<u8>> = (0..nframes).map(|i| vec![size_byte(compressed, 4), 3, (1 + i % 250) as u8, 3]).collect();
            let evs = vec![Ev::Pending, Ev::Data(frames.concat()), Ev::Pending, Ev::Eof];
            let base = run_cancel(compressed, false, evs.clone(), vec![], &BTreeSet::new());
            let n = base.map(|b| b.suspensions).unwrap_or(0).min(12) + 4;
            cancel_case(ctx, compressed, false, &frames, &evs, &[], &BTreeSet::new());
            for i in 0..n { cancel_case(ctx, compressed, false, &frames, &evs, &[], &[i].into_iter().collect()); }
        }
        // 5. version verification on: a refused IS_VER is a result like any other — with a write half that is not ready or takes
        // a byte at a time (whatever the connection may want to send at that point), every drop index
        {
            let bad = pool.ver[8].clone();
            let good = pool.ver[9].clone();
            for ws in [vec![WEv::Pending, WEv::Accept(1), WEv::Pending, WEv::Accept(1), WEv::Pending, WEv::Accept(8), WEv::Pending, WEv::Accept(8)], vec![WEv::Accept(2), WEv::Pending, WEv::Pending, WEv::Accept(2), WEv::Pending, WEv::Accept(4)], vec![]] {
                let frames = vec![ping.clone(), bad.clone(), ping.clone(), good.clone(), ka.clone(), bad.clone()];
                let mut evs = vec![];
                for f in &frames { evs.push(Ev::Pending); evs.push(Ev::Data(f.clone())); }
                evs.push(Ev::Pending);
                evs.push(Ev::Eof);
                let base = run_cancel(compressed, true, evs.clone(), ws.clone(), &BTreeSet::new());
                let n = base.map(|b| b.suspensions).unwrap_or(0).min(24);
                cancel_case(ctx, compressed, true, &frames, &evs, &ws, &BTreeSet::new());
                for i in 0..n { cancel_case(ctx, compressed, true, &frames, &evs, &ws, &[i].into_iter().collect()); }
            }
        }
        // 4. a burst that fills the connection's receive buffer to the last byte (6120 bytes; and just under / over), the
        // transport not ready on the next read, the read future dropped there — on a frame boundary and inside a frame
        {
            let bigs = big_frames(compressed);
            let largest = bigs.iter().max_by_key(|f| f.len()).cloned().unwrap_or(ping.clone());
            let mk = |n_objs: usize| -> Vec<u8> { let len = 8 + 8 * n_objs; let mut f = vec![0u8; len]; f[0] = size_byte(compressed, len); f[1] = 54; f[3] = n_objs as u8; f };
            let per = largest.len();
            for cut in [6116usize, 6120, 6124, 6184] {
                for on_boundary in [false, true] {
                    let mut frames: Vec<Vec<u8>> = vec![];
                    let mut total = 0usize;
                    while total + per <= cut { frames.push(largest.clone()); total += per; }
                    if on_boundary {
                        // fill up to the cut with one AXM of the right size (8 + 8n bytes), then ordinary traffic
                        let rest = cut - total;
                        if rest >= 8 && rest % 8 == 0 && classify(compressed, &mk((rest - 8) / 8)) != "E" { frames.push(mk((rest - 8) / 8)); } else { continue; }
                    }
                    frames.push(largest.clone());
                    frames.push(ping.clone());
                    frames.push(vec![size_byte(compressed, 8), 4, 1, 6, 0xfd, 2, 0, 0]); // SMALL_RTP 7.65 s
                    let stream = frames.concat();
                    if stream.len() <= cut { continue; }
                    let evs = vec![Ev::Data(stream[..cut].to_vec()), Ev::Pending, Ev::Data(stream[cut..].to_vec()), Ev::Pending, Ev::Eof];
                    cancel_case(ctx, compressed, false, &frames, &evs, &[], &BTreeSet::new());
                    for d in [vec![0usize], vec![1], vec![0, 1]] {
                        cancel_case(ctx, compressed, false, &frames, &evs, &[], &d.into_iter().collect());
                    }
                }
            }
        }
        // 3. flush not ready: two plain packets in one segment, every drop index, for several flush scripts
        for fl in [vec![true], vec![true, true], vec![false, true], vec![true, false, true]] {
            let frames = vec![ping.clone(), vec![size_byte(compressed, 4), 3, 5, 3], ka.clone(), ping.clone()];
            let evs = vec![Ev::Data(frames.concat()), Ev::Pending, Ev::Eof];
            cancel_case_f(ctx, compressed, false, &frames, &evs, &[], &fl, &BTreeSet::new());
            for i in 0..6usize {
                cancel_case_f(ctx, compressed, false, &frames, &evs, &[], &fl, &[i].into_iter().collect());
            }
        }
    }
}
