//! C20 — WebSocket adaptor over a loopback tungstenite server.
use crate::common::*;
use crate::conn::*;
use futures_util::{SinkExt, StreamExt};
use insim::net::Codec;
use std::time::Duration;
use tokio_tungstenite::tungstenite::protocol::Message;

#[derive(Clone, Debug)]
pub enum M {
    B(Vec<u8>),
    Text,
    Ping,
}
fn m_tok(m: &M) -> String {
    match m { M::B(b) => format!("b:{}", hex(b)), M::Text => "t".into(), M::Ping => "p".into() }
}
fn msgs_text(v: &[M]) -> String {
    if v.is_empty() { "-".into() } else { v.iter().map(m_tok).collect::<Vec<_>>().join("+") }
}
fn parse_msgs(s: &str) -> Vec<M> {
    if s == "-" { return vec![]; }
    s.split('+').map(|t| if t == "t" { M::Text } else if t == "p" { M::Ping } else { M::B(unhex(t.trim_start_matches("b:"))) }).collect()
}
fn to_ws(m: &M) -> Message {
    match m { M::B(b) => Message::binary(b.clone()), M::Text => Message::Text("ignored".into()), M::Ping => Message::Ping(vec![1, 2]) }
}

/// status code of the Close frame the server sends when it closes (0 = a Close without a frame)
static CLOSE_CODE: std::sync::atomic::AtomicU32 = std::sync::atomic::AtomicU32::new(0);

fn rt() -> tokio::runtime::Runtime {
    tokio::runtime::Builder::new_current_thread().enable_all().build().unwrap()
}

/// spawn a server that sends `msgs`, optionally closes, and records every binary message it receives
async fn serve(msgs: Vec<M>, close: bool) -> (std::net::SocketAddr, tokio::task::JoinHandle<Vec<Vec<u8>>>) {
    let listener = tokio::net::TcpListener::bind("127.0.0.1:0").await.unwrap();
    let addr = listener.local_addr().unwrap();
    let h = tokio::spawn(async move {
        let (s, _) = listener.accept().await.unwrap();
        let mut ws = tokio_tungstenite::accept_async(s).await.unwrap();
        for m in &msgs { let _ = ws.send(to_ws(m)).await; }
        let mut got = vec![];
        if close {
            let code = CLOSE_CODE.load(std::sync::atomic::Ordering::Relaxed);
            let frame = if code == 0 { None } else { Some(tokio_tungstenite::tungstenite::protocol::CloseFrame { code: (code as u16).into(), reason: "relay restarting".into() }) };
            let _ = ws.close(frame).await;
        }
        // collect what the client writes (until it goes quiet)
        loop {
            match tokio::time::timeout(Duration::from_millis(250), ws.next()).await {
                Ok(Some(Ok(Message::Binary(b)))) => got.push(b.to_vec()),
                Ok(Some(Ok(_))) => {},
                _ => break,
            }
        }
        got
    });
    (addr, h)
}

async fn client(addr: std::net::SocketAddr) -> insim::net::tokio_impl::WebsocketStream {
    let (s, _) = tokio_tungstenite::connect_async(format!("ws://{}/connect", addr)).await.unwrap();
    insim::net::tokio_impl::WebsocketStream::from(s)
}

pub fn adaptor_case(ctx: &mut Ctx, closed: bool, offers: &[usize], msgs: &[M]) {
    let op = format!("ws.adaptor {} {} {}", closed as u8, if offers.is_empty() { "-".to_string() } else { offers.iter().map(|o| o.to_string()).collect::<Vec<_>>().join(",") }, msgs_text(msgs));
    let (o2, m2) = (offers.to_vec(), msgs.to_vec());
    let r: Option<Vec<String>> = guard(std::panic::AssertUnwindSafe(move || {
        rt().block_on(async move {
            use tokio::io::AsyncReadExt;
            let (addr, h) = serve(m2, closed).await;
            let mut c = client(addr).await;
            let mut out = vec![];
            for o in o2 {
                let mut buf = vec![0u8; o];
                match tokio::time::timeout(Duration::from_millis(200), AsyncReadExt::read(&mut c, &mut buf)).await {
                    Ok(Ok(0)) => { out.push("-".to_string()); break; },
                    Ok(Ok(n)) => out.push(hex(&buf[..n])),
                    Ok(Err(e)) => { out.push(format!("err:{:?}", e.kind())); break; },
                    Err(_) => { out.push("PENDING".to_string()); break; },
                }
            }
            drop(c);
            let _ = h.await;
            out
        })
    }));
    let res = match &r { None => "panic".to_string(), Some(v) if v.is_empty() => "none".to_string(), Some(v) => v.join("+") };
    ctx.case(&op, &res);
    if let Some(v) = &r {
        let want: Vec<u8> = msgs.iter().filter_map(|m| if let M::B(b) = m { Some(b.clone()) } else { None }).flatten().collect();
        let got: Vec<u8> = v.iter().filter(|s| *s != "-" && *s != "PENDING" && !s.starts_with("err:")).flat_map(|s| unhex(s)).collect();
        if !want.starts_with(&got) {
            ctx.violation("c20/adaptor/bytes", "the adaptor delivered bytes that are not a prefix of the concatenated binary payloads", &op, &hex(&want), &res);
        }
        let budget: usize = offers.iter().sum();
        if got.len() < want.len() && budget >= want.len() + offers.len() && v.len() < offers.len() && offers.iter().all(|o| *o > 0) {
            ctx.violation("c20/adaptor/stalled", "binary payload bytes were outstanding but the adaptor stopped serving them", &op, &hex(&want), &res);
        }
        if closed && got.len() == want.len() && v.len() < offers.len() && v.last().map(|s| s.as_str()) != Some("-") {
            ctx.violation("c20/adaptor/closure", "closure did not surface as a zero-byte read (disconnected)", &op, "… + -", &res);
        }
    }
}

/// the adaptor under a caller that keeps ONE buffer across several reads (`read_exact`): blocks that span messages
pub fn exact_case(ctx: &mut Ctx, closed: bool, sizes: &[usize], msgs: &[M]) {
    let op = format!("ws.exact {} {} {}", closed as u8, if sizes.is_empty() { "-".to_string() } else { sizes.iter().map(|o| o.to_string()).collect::<Vec<_>>().join(",") }, msgs_text(msgs));
    let (s2, m2) = (sizes.to_vec(), msgs.to_vec());
    let r: Option<Vec<String>> = guard(std::panic::AssertUnwindSafe(move || {
        rt().block_on(async move {
            use tokio::io::AsyncReadExt;
            let (addr, h) = serve(m2, closed).await;
            let mut c = client(addr).await;
            let mut out = vec![];
            for n in s2 {
                let mut buf = vec![0u8; n];
                match tokio::time::timeout(Duration::from_millis(250), AsyncReadExt::read_exact(&mut c, &mut buf)).await {
                    Ok(Ok(_)) => out.push(if n == 0 { "-".to_string() } else { hex(&buf) }),
                    Ok(Err(e)) => { out.push(if e.kind() == std::io::ErrorKind::UnexpectedEof { "EOF".to_string() } else { format!("err:{:?}", e.kind()) }); break; },
                    Err(_) => { out.push("PENDING".to_string()); break; },
                }
            }
            drop(c);
            let _ = h.await;
            out
        })
    }));
    let res = match &r { None => "panic".to_string(), Some(v) if v.is_empty() => "none".to_string(), Some(v) => v.join("+") };
    ctx.case(&op, &res);
    match &r {
        None => ctx.violation("c20/adaptor/panic", "the adaptor panicked when read into a partly filled buffer", &op, "bytes", "panic"),
        Some(v) => {
            let want: Vec<u8> = msgs.iter().filter_map(|m| if let M::B(b) = m { Some(b.clone()) } else { None }).flatten().collect();
            let got: Vec<u8> = v.iter().filter(|s| *s != "-" && *s != "PENDING" && *s != "EOF" && !s.starts_with("err:")).flat_map(|s| unhex(s)).collect();
            if !want.starts_with(&got) || v.iter().any(|s| s.starts_with("err:")) {
                ctx.violation("c20/adaptor/bytes", "the adaptor delivered bytes that are not a prefix of the concatenated binary payloads", &op, &hex(&want), &res);
            }
        },
    }
}

/// connection level: frames distributed over binary messages in every way; results must equal the TCP results
pub fn session_case(ctx: &mut Ctx, frames: &[Vec<u8>], msgs: &[M], label: &str) {
    let compressed = false; // the relay speaks uncompressed
    let (_, tbl) = class_table(compressed, frames);
    let mut want: Vec<String> = frames.iter().map(|f| match tbl[f].as_str() { "E" => "err decode".to_string(), c => format!("pkt {}", c) }).collect();
    want.push("err disconnected".into());
    let n_ka = frames.iter().filter(|f| f[1] == 3 && f[2] == 0 && f[3] == 0 && tbl[*f] != "E").count();
    ctx.oracle_eval("session");
    let m2 = msgs.to_vec();
    let n = want.len();
    let got = guard(std::panic::AssertUnwindSafe(move || {
        rt().block_on(async move {
            let (addr, h) = serve(m2, true).await;
            let c = client(addr).await;
            let mut f = insim::net::tokio_impl::Framed::new(Box::new(c), Codec::new(mode_of(compressed)));
            let mut out = vec![];
            for _ in 0..n {
                match tokio::time::timeout(Duration::from_millis(400), f.read()).await {
                    Ok(Ok(p)) => out.push(format!("pkt {}", cls_token(&p))),
                    Ok(Err(e)) => { let t = err_token(&e, false); let stop = t == "err disconnected"; out.push(t); if stop { break; } },
                    Err(_) => { out.push("stalled".into()); break; },
                }
            }
            drop(f);
            let replies = h.await.unwrap_or_default();
            (out, replies)
        })
    }));
    let code = CLOSE_CODE.load(std::sync::atomic::Ordering::Relaxed);
    let input = format!("ws.session {} {}{}", if frames.is_empty() { "-".to_string() } else { frames.iter().map(|f| hex(f)).collect::<Vec<_>>().join("+") }, msgs_text(msgs), if code == 0 { String::new() } else { format!(" close={}", code) });
    match got {
        None => ctx.violation("c20/session/panic", "WebSocket session panicked", &input, "packets", "panic"),
        Some((out, replies)) => {
            if out != want {
                let first = out.iter().zip(want.iter()).position(|(a, b)| a != b).unwrap_or(out.len().min(want.len()));
                let closure_only = first == want.len() - 1;
                ctx.violation(&format!("c20/session/{}", if closure_only { "closure" } else { label }), if closure_only { "closure of the WebSocket did not surface as 'disconnected'" } else { "packets delivered over the WebSocket transport differ from the TCP results for the same byte stream" }, &input, &format!("{:?} at {}", want.get(first), first), &format!("{:?}", out.get(first)));
            } else {
                let pong = vec![4u8, 3, 0, 0];
                if replies.len() != n_ka || replies.iter().any(|r| *r != pong) {
                    ctx.violation("c20/write/messages", "a written packet did not leave as exactly one binary message containing exactly its frame", &input, &format!("{} x 04030000", n_ka), &format!("{:?}", replies.iter().map(|r| hex(r)).collect::<Vec<_>>()));
                }
            }
        },
    }
}

/// a long backlog delivered in very large binary messages (a relay that coalesces everything it has): `nframes` four-byte
/// packets cut into messages of `msgsize` bytes — every packet arrives, in order, whatever the message size
pub fn big_message_case(ctx: &mut Ctx, nframes: usize, msgsize: usize) {
    ctx.oracle_eval("big-message");
    let input = format!("ws.bigmsg {} {}", nframes, msgsize);
    let stream: Vec<u8> = (0..nframes).flat_map(|i| vec![4u8, 3, 1 + (i % 250) as u8, 3]).collect();
    let msgs: Vec<M> = stream.chunks(msgsize.max(1)).map(|c| M::B(c.to_vec())).collect();
    let got = guard(std::panic::AssertUnwindSafe(move || {
        rt().block_on(async move {
            let (addr, h) = serve(msgs, true).await;
            let c = client(addr).await;
            let mut f = insim::net::tokio_impl::Framed::new(Box::new(c), Codec::new(mode_of(false)));
            let mut n = 0usize;
            let mut end = String::new();
            loop {
                match tokio::time::timeout(Duration::from_millis(1500), f.read()).await {
                    Ok(Ok(insim::Packet::Tiny(t))) if t.reqi.0 == 1 + (n % 250) as u8 => n += 1,
                    Ok(Ok(p)) => { end = format!("unexpected packet {}", cls_token(&p)); break; },
                    Ok(Err(e)) => { end = err_token(&e, false); break; },
                    Err(_) => { end = "stalled".into(); break; },
                }
            }
            drop(f);
            let _ = h.await;
            (n, end)
        })
    }));
    match got {
        Some((n, end)) if n == nframes && end == "err disconnected" => {},
        other => ctx.violation("c20/session/big-message", "a backlog delivered in very large binary messages did not arrive as its packets, in order, followed by the closure", &input, &format!("{} packets then err disconnected", nframes), &format!("{:?}", other)),
    }
}

pub fn write_case(ctx: &mut Ctx, frames: &[Vec<u8>]) { write_case_m(ctx, false, frames) }

/// … in either size mode (the adaptor carries whatever frames the codec produces: up to 1020 bytes in compressed mode)
pub fn write_case_m(ctx: &mut Ctx, compressed: bool, frames: &[Vec<u8>]) {
    let packets: Vec<insim::Packet> = frames.iter().filter_map(|f| packet_of(compressed, f)).collect();
    if packets.len() != frames.len() { return; }
    let want: Vec<Vec<u8>> = packets.iter().filter_map(|p| { let p = p.clone(); guard(std::panic::AssertUnwindSafe(move || Codec::new(mode_of(compressed)).encode(&p).ok().map(|b| b.to_vec()))).flatten() }).collect();
    if want.len() != packets.len() { ctx.count("ws.write skipped (packet does not re-encode: C03)"); return; }
    ctx.oracle_eval("write");
    let got = guard(std::panic::AssertUnwindSafe(move || {
        rt().block_on(async move {
            let (addr, h) = serve(vec![], false).await;
            let c = client(addr).await;
            let mut f = insim::net::tokio_impl::Framed::new(Box::new(c), Codec::new(mode_of(compressed)));
            for p in packets { let _ = f.write(p).await; }
            tokio::time::sleep(Duration::from_millis(50)).await;
            let r = h.await.unwrap_or_default();
            drop(f);
            r
        })
    }));
    let input = format!("{} {}", if compressed { "ws.writec" } else { "ws.write" }, frames.iter().map(|f| hex(f)).collect::<Vec<_>>().join("+"));
    // independent of the encoder's own idea of a frame: one message per packet, each as long as its size byte says
    if let Some(g) = &got {
        let bad = g.iter().any(|d| d.len() < 4 || (if compressed { d[0] as usize * 4 } else { d[0] as usize }) != d.len());
        if bad || g.len() != frames.len() {
            ctx.violation("c20/write/not-one-frame", "a binary message does not hold exactly one frame (its length differs from what its size byte announces), or the number of messages differs from the number of packets written", &input, &format!("{} messages, each as long as its size byte says", frames.len()), &format!("{:?}", g.iter().map(|r| truncate(&hex(r), 40)).collect::<Vec<_>>()));
        }
    }
    if got.as_ref() != Some(&want) {
        ctx.violation("c20/write/messages", "a written packet did not leave as exactly one binary message containing exactly its frame", &input, &format!("{:?}", want.iter().map(|r| hex(r)).collect::<Vec<_>>()), &format!("{:?}", got.map(|g| g.iter().map(|r| hex(r)).collect::<Vec<_>>())));
    }
}

/// the write half under back-pressure: the peer does not read for a while, both socket buffers are small, so
/// the flush inside `poll_write` is `Pending` for many packets; afterwards the client keeps reading (which drives
/// the pending flush) and every written packet must have left as exactly one binary message, once, in order
pub fn backpressure_case(ctx: &mut Ctx, n: usize) { backpressure_case_p(ctx, "c20", n) }
/// … also run by C06 (every written packet reaches the transport once, in call order, however often it is not ready)
pub fn backpressure_case_p(ctx: &mut Ctx, prop: &str, n: usize) {
    ctx.oracle_eval("write under back-pressure");
    let frames: Vec<Vec<u8>> = (0..n).map(|i| {
        let p = insim::Packet::Msl(insim::insim::Msl { msg: format!("packet number {:06} ................................................................", i), ..Default::default() });
        Codec::new(mode_of(false)).encode(&p).map(|b| b.to_vec()).unwrap_or_default()
    }).collect();
    let want = frames.clone();
    let got = guard(std::panic::AssertUnwindSafe(move || {
        rt().block_on(async move {
            let lsock = tokio::net::TcpSocket::new_v4().unwrap();
            let _ = lsock.set_recv_buffer_size(4096);
            lsock.bind("127.0.0.1:0".parse().unwrap()).unwrap();
            let listener = lsock.listen(4).unwrap();
            let addr = listener.local_addr().unwrap();
            let server = tokio::spawn(async move {
                let (s, _) = listener.accept().await.unwrap();
                let mut ws = tokio_tungstenite::accept_async(s).await.unwrap();
                tokio::time::sleep(Duration::from_millis(400)).await;     // stalled peer
                let mut got: Vec<Vec<u8>> = vec![];
                loop {
                    match tokio::time::timeout(Duration::from_millis(600), ws.next()).await {
                        Ok(Some(Ok(Message::Binary(b)))) => got.push(b.to_vec()),
                        Ok(Some(Ok(_))) => {},
                        _ => break,
                    }
                }
                got
            });
            let csock = tokio::net::TcpSocket::new_v4().unwrap();
            let _ = csock.set_send_buffer_size(4096);
            let tcp = csock.connect(addr).await.unwrap();
            let (ws, _) = tokio_tungstenite::client_async(format!("ws://{}/connect", addr), tokio_tungstenite::MaybeTlsStream::Plain(tcp)).await.unwrap();
            let c = insim::net::tokio_impl::WebsocketStream::from(ws);
            let mut f = insim::net::tokio_impl::Framed::new(Box::new(c), Codec::new(mode_of(false)));
            for fr in &frames {
                if let Some(p) = packet_of(false, fr) { let _ = tokio::time::timeout(Duration::from_secs(5), f.write(p)).await; }
            }
            // keep the connection polled: a read drives whatever the writer left queued
            let _ = tokio::time::timeout(Duration::from_millis(1500), f.read()).await;
            let r = server.await.unwrap_or_default();
            drop(f);
            r
        })
    }));
    let input = format!("ws.backpressure {}", n);
    match got {
        None => ctx.violation(&format!("{}/write/panic", prop), "writing under back-pressure panicked", &input, "messages", "panic"),
        Some(g) => {
            ctx.count(&format!("back-pressure: {} of {} packets arrived", g.len(), n));
            let first_bad = g.iter().zip(want.iter()).position(|(a, b)| a != b);
            if let Some(i) = first_bad {
                ctx.violation(&format!("{}/write/backpressure-order", prop), "under back-pressure a written packet did not leave as exactly one binary message containing exactly its frame (duplicate, reordered or damaged message)", &input, &format!("message #{} = frame #{}", i, i), &truncate(&hex(&g[i]), 60));
            } else if g.len() > want.len() {
                ctx.violation(&format!("{}/write/backpressure-extra", prop), "more binary messages than written packets", &input, &n.to_string(), &g.len().to_string());
            } else if g.len() < want.len() {
                ctx.violation(&format!("{}/write/backpressure-lost", prop), "written packets never left although the connection stayed open and polled", &input, &n.to_string(), &g.len().to_string());
            }
        },
    }
}

/// distribute a byte stream over binary messages according to a cut mask, sprinkling non-binary messages
fn distribute(rng: &mut Rng, stream: &[u8], style: u64) -> Vec<M> {
    let mut out = vec![];
    let mut i = 0;
    while i < stream.len() {
        let left = stream.len() - i;
        let k = match style % 5 { 0 => 1 + rng.below(3) as usize, 1 => left, 2 => 1 + rng.below(40) as usize, 3 => 1021 + rng.below(1500) as usize, _ => 1 + rng.below(400) as usize }.min(left);
        if rng.chance(1, 5) { out.push(if rng.chance(1, 2) { M::Text } else { M::Ping }); }
        if rng.chance(1, 12) { out.push(M::B(vec![])); }
        out.push(M::B(stream[i..i + k].to_vec()));
        i += k;
    }
    out
}

pub fn run(ctx: &mut Ctx) {
    if let Some(lines) = ctx.replay.clone() {
        for l in lines {
            let w: Vec<&str> = l.split_whitespace().collect();
            match w.as_slice() {
                ["ws.adaptor", c, offers, msgs] => {
                    let o: Vec<usize> = if *offers == "-" { vec![] } else { offers.split(',').filter_map(|x| x.parse().ok()).collect() };
                    adaptor_case(ctx, *c == "1", &o, &parse_msgs(msgs));
                },
                ["ws.session", frames, msgs] | ["ws.session", frames, msgs, _] => {
                    let f: Vec<Vec<u8>> = if *frames == "-" { vec![] } else { frames.split('+').map(unhex).collect() };
                    let code: u32 = w.get(3).and_then(|c| c.strip_prefix("close=")).and_then(|c| c.parse().ok()).unwrap_or(0);
                    CLOSE_CODE.store(code, std::sync::atomic::Ordering::Relaxed);
                    session_case(ctx, &f, &parse_msgs(msgs), "replay");
                    CLOSE_CODE.store(0, std::sync::atomic::Ordering::Relaxed);
                },
                ["ws.exact", c, sizes, msgs] => {
                    let o: Vec<usize> = if *sizes == "-" { vec![] } else { sizes.split(',').filter_map(|x| x.parse().ok()).collect() };
                    exact_case(ctx, *c == "1", &o, &parse_msgs(msgs));
                },
                ["ws.write", frames] => write_case(ctx, &frames.split('+').map(unhex).collect::<Vec<_>>()),
                ["ws.writec", frames] => write_case_m(ctx, true, &frames.split('+').map(unhex).collect::<Vec<_>>()),
                ["ws.bigmsg", n, m] => big_message_case(ctx, n.parse().unwrap_or(20000), m.parse().unwrap_or(65536)),
                ["ws.backpressure", n] => backpressure_case(ctx, n.parse().unwrap_or(3000)),
                _ => {},
            }
        }
        return;
    }
    let quick = ctx.quick();
    // adaptor level
    let base: Vec<Vec<M>> = vec![
        vec![M::B(vec![1, 2, 3, 4, 5, 6, 7, 8])],
        vec![M::B(vec![1, 2]), M::Text, M::B(vec![3, 4, 5, 6, 7]), M::Ping, M::B(vec![8])],
        vec![M::Ping, M::Text, M::B(vec![9, 9, 9, 9])],
        vec![M::B(vec![]), M::B(vec![4, 3, 0, 0]), M::B(vec![])],
        vec![],
    ];
    // long runs of non-binary messages (text, ping) in front of a binary one, all of them already received when the adaptor is read
    for run in [15usize, 16, 17, 31, 32, 40, 100] {
        for kind in 0..3 {
            let mut msgs: Vec<M> = (0..run).map(|i| match kind { 0 => M::Text, 1 => if i % 2 == 0 { M::Text } else { M::Ping }, _ => if i % 5 == 0 { M::Ping } else { M::Text } }).collect();
            msgs.push(M::B(vec![1, 2, 3, 4, 5, 6, 7, 8]));
            msgs.push(M::Text);
            msgs.push(M::B(vec![9, 10, 11, 12]));
            for closed in [true, false] { adaptor_case(ctx, closed, &[64, 64, 64], &msgs); }
        }
    }
    for msgs in &base {
        for closed in [true, false] {
            for o in [1usize, 2, 3, 5, 64] {
                adaptor_case(ctx, closed, &vec![o; 12], msgs);
            }
        }
    }
    for _ in 0..(if quick { 40 } else { 2000 }) {
        let n = *ctx.rng.pick(&[4usize, 20, 132, 700, 1020, 1021, 2500, 5000]);
        let stream: Vec<u8> = (0..n).map(|_| ctx.rng.byte()).collect();
        let style = ctx.rng.next();
        let msgs = distribute(&mut ctx.rng, &stream, style);
        let st = ctx.rng.below(3);
        let offers: Vec<usize> = (0..600).map(|_| match st { 0 => 1 + ctx.rng.below(9) as usize, 1 => 1 + ctx.rng.below(500) as usize, _ => 6120 }).collect();
        let cl = ctx.rng.chance(1, 2);
        adaptor_case(ctx, cl, &offers, &msgs);
    }
    // read_exact over message boundaries (size byte, then body; blocks larger than a message; text and ping in between)
    {
        let stream: Vec<u8> = (1..=40u8).collect();
        for cuts in [vec![2usize, 40], vec![1, 5, 6, 30, 40], vec![40], vec![3, 4, 5, 6, 7, 8, 40]] {
            let mut msgs = vec![]; let mut a = 0;
            for c in cuts { msgs.push(M::B(stream[a..c].to_vec())); if c == 5 { msgs.push(M::Text); } if c == 6 { msgs.push(M::Ping); } a = c; }
            for sizes in [vec![1usize, 3, 1, 3, 8, 24], vec![4; 10], vec![7, 7, 7, 7, 7, 5], vec![40], vec![1; 40], vec![39, 2]] {
                for closed in [true, false] { exact_case(ctx, closed, &sizes, &msgs); }
            }
        }
    }
    // connection level: frames x partitions into messages
    let pool = build_pool(false);
    let any: Vec<Vec<u8>> = pool.by_type.iter().map(|(_, f)| f.clone()).collect();
    let ka = vec![4u8, 3, 0, 0];
    for i in 0..(if quick { 40 } else { 1500 }) {
        let k = if i % 10 == 3 { 60 + ctx.rng.below(100) as usize } else { ctx.rng.below(8) as usize };
        let frames: Vec<Vec<u8>> = (0..k).map(|_| if ctx.rng.chance(1, 6) { ka.clone() } else if ctx.rng.chance(1, 8) { ctx.rng.pick(&pool.bad).clone() } else { ctx.rng.pick(&any).clone() }).collect();
        let frames: Vec<Vec<u8>> = frames.into_iter().filter(|f| classify(false, f) != "F" && classify(false, f) != "P").collect();
        let style = ctx.rng.next();
        let msgs = distribute(&mut ctx.rng, &frames.concat(), style);
        session_case(ctx, &frames, &msgs, "packets");
    }
    // one frame per message / all frames in one message / every split of a short stream
    let short = vec![ka.clone(), vec![4, 3, 7, 3], ka.clone()];
    let stream = short.concat();
    for mask in 0..(1u64 << (stream.len() - 1)) {
        if quick && mask % 16 != 5 { continue; }
        let msgs: Vec<M> = partition_by_mask(&stream, mask).into_iter().filter_map(|e| if let crate::transport::Ev::Data(b) = e { Some(M::B(b)) } else { None }).collect();
        session_case(ctx, &short, &msgs, "packets");
    }
    // however the peer closes (any status code, with a reason), closure is 'disconnected' after everything sent before it
    for code in [1000u32, 1001, 1002, 1003, 1007, 1008, 1009, 1011, 1012, 1013, 3000, 4000, 4999] {
        CLOSE_CODE.store(code, std::sync::atomic::Ordering::Relaxed);
        session_case(ctx, &short, &[M::B(stream.clone())], "packets");
        session_case(ctx, &[], &[], "packets");
        CLOSE_CODE.store(0, std::sync::atomic::Ordering::Relaxed);
    }
    ctx.exhaustive_domains.push(format!("all splits of a 12-byte three-frame stream into binary messages{}", if quick { " (every 16th in quick)" } else { "" }));
    for _ in 0..(if quick { 6 } else { 200 }) {
        let k = 1 + ctx.rng.below(5) as usize;
        let fr: Vec<Vec<u8>> = (0..k).map(|_| ctx.rng.pick(&any).clone()).collect();
        write_case(ctx, &fr);
    }
    // large frames (compressed mode announces up to 1020 bytes): alone and between small ones
    for b in big_frames(true) {
        write_case_m(ctx, true, &[b.clone()]);
        write_case_m(ctx, true, &[vec![1, 3, 0, 0], b.clone(), vec![1, 3, 7, 3]]);
    }
    for b in big_frames(false) { write_case_m(ctx, false, &[b.clone()]); }
    backpressure_case(ctx, if quick { 3000 } else { 20000 });
    for m in [65535usize, 65536, 80000] { big_message_case(ctx, 20000, m); }
    if !quick { for m in [1021usize, 4096, 16384, 32768, 65537, 131072, 400000] { big_message_case(ctx, 100000, m); } }
    ctx.exhaustive_domains.push("a backlog of 20000 packets delivered in binary messages of 65535, 65536 and 80000 bytes".into());
}
