use corr::common::*;

#[global_allocator]
static ALLOC: corr::c17::Counting = corr::c17::Counting;
use std::path::PathBuf;

fn main() {
    let args: Vec<String> = std::env::args().collect();
    if args.get(1).map(|s| s.as_str()) == Some("--c17-probe") { corr::c17::probe_main(); return; }
    let mut id = String::new();
    let mut tier = Tier::Quick;
    let mut seed = 1u64;
    let mut out = PathBuf::from("run");
    let mut replay: Option<String> = None;
    let mut resolve = false;
    let mut i = 1;
    while i < args.len() {
        match args[i].as_str() {
            "--tier" => { i += 1; tier = if args[i] == "thorough" { Tier::Thorough } else { Tier::Quick }; },
            "--seed" => { i += 1; seed = args[i].parse().unwrap_or(1); },
            "--out" => { i += 1; out = PathBuf::from(&args[i]); },
            "--replay" => { i += 1; replay = Some(args[i].clone()); },
            "--resolve" => { resolve = true; },
            s => if id.is_empty() { id = s.to_string() },
        }
        i += 1;
    }
    if id == "JSON" {
        // debugging aid: corr JSON <c|u> <hex frame> prints the serde image of the decoded packet
        let a: Vec<&String> = args.iter().skip(2).collect();
        if let corr::pkt::Dec::Pkt(p, _) = corr::pkt::real_decode(a[0] == "c", &unhex(a[1])) { println!("{}", serde_json::to_string(&p).unwrap()); } else { println!("no packet"); }
        return;
    }
    if resolve {
        // second pass: evaluate the external calls the model left in its output (codec runs for C10)
        if id == "C10" { corr::c10::resolve(&out); }
        if ["C01", "C02", "C03", "C04", "C11", "C17"].contains(&id.as_str()) { corr::pkt::resolve(&out); }
        return;
    }
    if std::env::var("CORR_SHOW_PANICS").is_err() { silence_panics(); }
    let mut ctx = Ctx::new(&id, tier, seed, out);
    if let Some(p) = replay {
        let text = std::fs::read_to_string(&p).expect("replay file");
        ctx.replay = Some(text.lines().map(|s| s.to_string()).filter(|s| !s.is_empty() && !s.starts_with('#')).collect());
    }
    match id.as_str() {
        "C08" => corr::c08::run(&mut ctx),
        "C10" => corr::c10::run(&mut ctx),
        "C11" => corr::c11::run(&mut ctx),
        "C12" => corr::c12::run(&mut ctx),
        "C13" => corr::c13::run(&mut ctx),
        "C14" => corr::c14::run(&mut ctx),
        "C15" => corr::c15::run(&mut ctx),
        "C16" => corr::c16::run(&mut ctx),
        "C17" => corr::c17::run(&mut ctx),
        "C02" => corr::c02::run(&mut ctx),
        "C18" => corr::c18::run(&mut ctx),
        "C19" => corr::c19::run(&mut ctx),
        "C20" => corr::c20::run(&mut ctx),
        "C01" => corr::c01::run(&mut ctx),
        "C03" => corr::c03::run(&mut ctx),
        "C04" => corr::c04::run(&mut ctx),
        "C05" | "C06" | "C07" | "C09" => { let id2 = id.clone(); corr::conn::run(&mut ctx, &id2) },
        other => { eprintln!("unknown property {}", other); std::process::exit(2); },
    }
    ctx.finish();
}
